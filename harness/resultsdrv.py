"""Driver for C08: the REAL jade.jobs.results_aggregator.ResultsAggregator run by several virtual
actors in ONE process under a deterministic scheduler.

Every visible operation of the code is a yield point (the actor thread parks *before* the
operation; the scheduler picks which parked actor performs its operation next):
  * lock operations: `SoftFileLock` in results_aggregator's namespace is replaced by `StandInLock`
    (same on-disk protocol: O_EXCL create of `<file>.lock` holding pid/host, unlink on release);
    `acquire` is schedulable only while the marker is absent;
  * file operations inside results_aggregator: `open` (read / append / write), `os.remove` /
    `os.unlink`, `Path.glob` / `glob.glob` (names `open`, `os`, `Path`, `glob` of that module).
Between two yield points an actor runs alone (baton), so a schedule is the sequence of actor
numbers chosen - the same sequence drives the Gallina model (ResultsFiles.step).

Nothing here knows the model; `judge` holds the property oracles over impl's own outputs."""
import builtins
import collections
import csv
import glob as _glob_mod
import os
import pathlib
import re
import shutil
import socket
import tempfile
import threading
import types

from harness.gen import results as genresults

CONST = None


def consts():
    global CONST
    if CONST is None:
        try:
            CONST = genresults.constants()
        except Exception:   # noqa: translator failed closed (reported by the proof phase); the impl-side
            # search for a failing input still needs the names: take them from the live objects
            import inspect
            import jade.jobs.results_aggregator as ra
            from jade.common import RESULTS_DIR
            from jade.result import Result
            d = inspect.signature(ra.ResultsAggregator.__init__).parameters.get("delimiter")
            CONST = {"fields": list(Result._fields), "delimiter": d.default if d is not None else ",",
                     "processed": ra.PROCESSED_RESULTS_FILENAME, "results_dir": RESULTS_DIR,
                     "glob": "results_batch_*.csv", "lock_suffix": ".lock"}
    return CONST


class Aborted(BaseException):
    pass


class MutexBroken(Exception):
    pass


SCHED = None      # the scheduler of the run in progress (None: stand-ins act immediately)


def _node_regex():
    pat = consts()["glob"]
    return re.compile("^" + re.escape(pat).replace(r"\*", r"(\d+)") + "$")


def fid_of(path):
    """'P' for the processed file, batch number for a node file, None for anything else."""
    name = os.path.basename(str(path))
    c = consts()
    if name.endswith(c["lock_suffix"]):
        name = name[: -len(c["lock_suffix"])]
    if name == c["processed"]:
        return "P"
    m = _node_regex().match(name)
    if m:
        return int(m.group(1))
    return None


# --------------------------------------------------------------------------------------------
class Actor:
    def __init__(self, sched, idx, fn, final=False):
        self.sched = sched
        self.idx = idx
        self.fn = fn
        self.final = final
        self.go = threading.Semaphore(0)
        self.done = False
        self.exc = None
        self.pending = None       # (kind, fid, lockpath)
        self.abort = False
        self.thread = threading.Thread(target=self._run, daemon=True)

    def _run(self):
        self.go.acquire()
        try:
            if self.abort:
                raise Aborted()
            self.fn(self)
        except Aborted:
            pass
        except BaseException as e:   # noqa: recorded for the oracle
            self.exc = e
        self.done = True
        self.pending = None
        self.sched.baton.release()


class Sched:
    """chooser(enabled_idx_list, step_no) -> actor idx.  glob_order: 'sorted' | 'shuffle'."""

    def __init__(self, chooser, rng=None, glob_order="sorted", on_quiescent=None, max_steps=2000):
        self.chooser = chooser
        self.rng = rng
        self.glob_order = glob_order
        self.on_quiescent = on_quiescent
        self.max_steps = max_steps
        self.actors = []
        self.by_thread = {}
        self.baton = threading.Semaphore(0)
        self.trace = []           # [actor, kind, fid, perm-or-None]
        self.choices = []         # (index chosen within enabled, number enabled)
        self.stuck = []
        self.held = {}            # lockpath -> actor idx (bookkeeping for the mutual-exclusion assertion)

    def spawn(self, fn, final=False):
        a = Actor(self, len(self.actors), fn, final)
        self.actors.append(a)
        return a

    def current(self):
        return self.by_thread.get(threading.get_ident())

    # called by the stand-ins, in the actor's thread
    def yield_point(self, kind, fid, lock=None):
        a = self.current()
        if a is None:
            return None
        a.pending = (kind, fid, lock)
        self.baton.release()
        a.go.acquire()
        if a.abort:
            raise Aborted()
        a.pending = None
        entry = [a.idx, kind, fid, None]
        self.trace.append(entry)
        return entry

    def _enabled(self, a):
        if a.done or a.pending is None:
            return False
        if a.final and any(not b.done for b in self.actors if not b.final):
            return False
        kind, fid, lock = a.pending
        if kind == "acq":
            return not os.path.lexists(lock)
        return True

    def _resume(self, a):
        a.go.release()
        self.baton.acquire()

    def run(self):
        global SCHED
        SCHED = self
        try:
            for a in self.actors:
                a.thread.start()
                self.by_thread[a.thread.ident] = a
            for a in self.actors:        # to the first yield point (pure code up to there)
                self._resume(a)
            step = 0
            while True:
                if self.on_quiescent is not None and self.quiescent():
                    self.on_quiescent(self)
                en = [a.idx for a in self.actors if self._enabled(a)]
                if not en or step >= self.max_steps:
                    break
                i = self.chooser(en, step)
                if i not in en:
                    raise RuntimeError(f"scheduler chose actor {i}, enabled {en} at step {step}")
                self.choices.append((en.index(i), len(en)))
                self._resume(self.actors[i])
                step += 1
            self.stuck = [a.idx for a in self.actors if not a.done]
            for a in self.actors:
                if not a.done:
                    a.abort = True
                    self._resume(a)
            for a in self.actors:
                a.thread.join(timeout=5)
        finally:
            SCHED = None
        return self

    def quiescent(self):
        """no actor inside a locked section: every live actor is parked at the acquire that opens a section
        and holds nothing"""
        if self.held:
            return False
        return all(a.done or (a.pending is not None and a.pending[0] == "acq") for a in self.actors)


# --------------------------------------------------------------------------------------------
# stand-ins installed into jade.jobs.results_aggregator's namespace
class StandInLock:
    """SoftFileLock's protocol: exclusive creation of the marker, unlink on release; re-entrant per object."""

    def __init__(self, lock_file, timeout=-1, **kw):
        self.lock_file = str(lock_file)
        self.timeout = timeout
        self._count = 0

    @property
    def is_locked(self):
        return self._count > 0

    def _create(self):
        fd = os.open(self.lock_file, os.O_WRONLY | os.O_CREAT | os.O_EXCL | os.O_TRUNC, 0o644)
        try:
            os.write(fd, f"{os.getpid()}\n{socket.gethostname()}\n".encode())
        finally:
            os.close(fd)

    def acquire(self, timeout=None, **kw):
        if self._count > 0:
            self._count += 1
            return self
        s = SCHED
        a = s.current() if s is not None else None
        if a is not None:
            s.yield_point("acq", fid_of(self.lock_file), self.lock_file)
            try:
                self._create()
            except FileExistsError:
                raise MutexBroken(f"marker {self.lock_file} exists although the scheduler saw it absent")
            if self.lock_file in s.held:
                raise MutexBroken(f"{self.lock_file} held twice")
            s.held[self.lock_file] = a.idx
        else:
            try:
                self._create()
            except FileExistsError:
                import filelock
                raise filelock.Timeout(self.lock_file)
        self._count = 1
        return self

    def release(self, force=False):
        if self._count == 0:
            return
        self._count = 0 if force else self._count - 1
        if self._count > 0:
            return
        s = SCHED
        a = s.current() if s is not None else None
        if a is not None:
            s.yield_point("rel", fid_of(self.lock_file), self.lock_file)
            s.held.pop(self.lock_file, None)
        try:
            os.unlink(self.lock_file)
        except FileNotFoundError:
            pass

    def __enter__(self):
        self.acquire()
        return self

    def __exit__(self, *a):
        self.release()


def _yield_file(kind, path):
    s = SCHED
    if s is None:
        return
    fid = fid_of(path)
    if fid is not None and not str(path).endswith(consts()["lock_suffix"]):
        s.yield_point(kind, fid)


def sched_open(file, mode="r", *a, **kw):
    kind = "read" if mode[:1] == "r" and "+" not in mode else ("append" if mode[:1] == "a" else "write")
    _yield_file(kind, file)
    return builtins.open(file, mode, *a, **kw)


class OsProxy:
    def __getattr__(self, name):
        return getattr(os, name)

    @staticmethod
    def remove(path, *a, **kw):
        _yield_file("remove", path)
        return os.remove(path, *a, **kw)

    unlink = remove


def _order_glob(paths):
    s = SCHED
    paths = list(paths)
    keyed = [(fid_of(p), p) for p in paths]
    if all(isinstance(k, int) for k, _ in keyed):
        keyed.sort(key=lambda kp: kp[0])
        if s is not None and s.glob_order == "shuffle" and s.rng is not None:
            s.rng.shuffle(keyed)
        elif s is not None and isinstance(s.glob_order, list) and s.glob_order:     # replay of recorded orders
            want = s.glob_order.pop(0) or []
            keyed.sort(key=lambda kp: (want.index(kp[0]) if kp[0] in want else len(want), kp[0]))
    return keyed


def _do_glob(compute):
    s = SCHED
    entry = s.yield_point("glob", None) if s is not None else None
    keyed = _order_glob(compute())
    if entry is not None:
        entry[3] = [k for k, _ in keyed]
    return [p for _, p in keyed]


class YPath(type(pathlib.Path())):
    def glob(self, pattern, **kw):
        sup = super()
        return iter(_do_glob(lambda: list(sup.glob(pattern, **kw))))

    def open(self, mode="r", *a, **kw):
        kind = "read" if mode[:1] == "r" and "+" not in mode else ("append" if mode[:1] == "a" else "write")
        _yield_file(kind, self)
        return super().open(mode, *a, **kw)

    def unlink(self, missing_ok=False):
        _yield_file("remove", self)
        return super().unlink(missing_ok=missing_ok)


class GlobProxy:
    def __getattr__(self, name):
        return getattr(_glob_mod, name)

    @staticmethod
    def glob(pattern, **kw):
        return _do_glob(lambda: _glob_mod.glob(pattern, **kw))

    @staticmethod
    def iglob(pattern, **kw):
        return iter(_do_glob(lambda: _glob_mod.glob(pattern, **kw)))


class Patched:
    """context manager installing the stand-ins"""

    def __enter__(self):
        import jade.jobs.results_aggregator as ra
        import jade.result as jr
        self.ra = ra
        self.saved = {k: ra.__dict__.get(k, self) for k in ("SoftFileLock", "open", "os", "Path", "glob")}
        ra.SoftFileLock = StandInLock
        ra.open = sched_open
        ra.os = OsProxy()
        ra.Path = YPath
        ra.glob = GlobProxy()
        return self

    def __exit__(self, *a):
        for k, v in self.saved.items():
            if v is self:
                self.ra.__dict__.pop(k, None)
            else:
                setattr(self.ra, k, v)


# --------------------------------------------------------------------------------------------
# scenarios
def canon_result(r):
    """a Result as the six texts str(getattr(result, x)) would give after one read (float fields as floats)"""
    return [str(r.name), str(int(r.return_code)), str(r.status), str(float(r.exec_time_s)),
            str(float(r.completion_time)), str(r.hpc_job_id)]


def row_texts(row):
    """the texts _format_row writes for a scenario row (= the model's row)"""
    return [row["name"], str(row["rc"]), row["status"], str(row["exec"]), str(row["ctime"]), str(row["hpc"])]


def canon_row(row):
    return [row["name"], str(int(row["rc"])), row["status"], str(float(row["exec"])), str(float(row["ctime"])), str(row["hpc"])]


def _mk_result(row):
    from jade.result import Result
    return Result(row["name"], row["rc"], row["status"], row["exec"], completion_time=row["ctime"], hpc_job_id=row["hpc"])


def _append(out, row, via, manager=True):
    """the call sites that append a result row; manager=False: the same call on a non-manager node of a
    multi-node batch (SLURM_NODEID != 0), which must not record anything"""
    from jade.jobs.results_aggregator import ResultsAggregator
    if via == "direct":        # HpcSubmitter._cancel_job: aggregator.append_result(result) on the processed file
        assert row["batch"] is None
        ResultsAggregator.load(out).append_result(_mk_result(row))
    elif via in ("cancel", "complete"):
        import jade.jobs.async_cli_command as acc
        import jade.result as jr
        job = types.SimpleNamespace(name=row["name"], cancel_on_blocking_job_failure=False)
        cmd = acc.AsyncCliCommand(job, "true", out, row["batch"], manager, row["hpc"])
        saved_t, saved_rt = acc.time, jr.time
        now = float(row["ctime"])
        jr.time = lambda: now
        acc.time = types.SimpleNamespace(time=lambda: now, sleep=lambda s: None)
        try:
            if via == "cancel":
                cmd.cancel()
            else:
                cmd._pipe = types.SimpleNamespace(returncode=row["rc"], pid=1, poll=lambda: row["rc"])
                cmd._stdout_fp = types.SimpleNamespace(close=lambda: None)
                cmd._stderr_fp = types.SimpleNamespace(close=lambda: None)
                cmd._start_time = now - float(row["exec"])
                cmd._is_pending = False
                cmd._complete()
        finally:
            acc.time, jr.time = saved_t, saved_rt
    else:                      # ResultsAggregator.append(output, result, batch_id) as both AsyncCliCommand paths do
        ResultsAggregator.append(out, _mk_result(row), batch_id=row["batch"])


def run_scenario(config, chooser, rng=None, glob_order="sorted", check_quiescent=True):
    """config = {"actors": [{"kind": "app", "via": ..., "rows": [row...]} | {"kind": "col", "rounds": n} ...]}
    The last actor may carry "final": true (runs only when all others are done).
    -> dict(trace, schedule, files, rets, locks_left, errors, stuck, appended, quiescent_problems)"""
    from jade.jobs.results_aggregator import ResultsAggregator
    c = consts()
    out = tempfile.mkdtemp(prefix="verif_c08_")
    res = {"errors": [], "quiescent_problems": []}
    try:
        os.makedirs(os.path.join(out, c["results_dir"]))
        with Patched():
            ResultsAggregator.create(out)
            appended = []      # (batch, canonical row) once the append call has returned
            rets = {}

            def on_q(s):
                if check_quiescent:
                    p = check_disk(out, appended, rets)
                    if p and len(res["quiescent_problems"]) < 3:
                        res["quiescent_problems"].append({"after_steps": len(s.trace), "problems": p})
            sched = Sched(chooser, rng=rng, glob_order=glob_order, on_quiescent=on_q)
            for k, spec in enumerate(config["actors"]):
                if spec["kind"] == "app":
                    def body(actor, spec=spec):
                        for row in spec["rows"]:
                            _append(out, row, spec.get("via", "append"), manager=spec.get("manager", True))
                            if spec.get("manager", True):
                                appended.append((row["batch"], canon_row(row)))
                    sched.spawn(body)
                else:
                    rets[k] = []

                    def body(actor, spec=spec, k=k):
                        for _ in range(spec["rounds"]):
                            try:
                                got = ResultsAggregator.load(out).process_results()
                                rets[k].append([canon_result(r) for r in got])
                            except Exception as e:   # noqa: the round has no return value
                                rets[k].append(None)
                                res["errors"].append({"actor": k, "exception": repr(e)[:300]})
                    sched.spawn(body, final=bool(spec.get("final")))
            sched.run()
        for a in sched.actors:
            if a.exc is not None:
                res["errors"].append({"actor": a.idx, "exception": repr(a.exc)[:300]})
        res["trace"] = [list(t) for t in sched.trace]
        res["schedule"] = [t[0] for t in sched.trace]
        res["choices"] = sched.choices
        res["stuck"] = sched.stuck
        res["appended"] = appended
        res["rets"] = [rets.get(k, []) for k in range(len(config["actors"]))]
        res["files"] = snapshot(out, config)
        res["locks_left"] = sorted(str(fid_of(p)) for p in _all_files(out) if p.endswith(c["lock_suffix"]))
        # what the user finally sees
        try:
            res["final_list"] = [canon_result(r) for r in ResultsAggregator.list_results(out)]
        except Exception as e:   # noqa
            res["final_list"] = None
            res["errors"].append({"actor": "list_results", "exception": repr(e)[:300]})
    finally:
        shutil.rmtree(out, ignore_errors=True)
    return res


def _all_files(out):
    c = consts()
    paths = []
    for d in (out, os.path.join(out, c["results_dir"])):
        if os.path.isdir(d):
            paths += [os.path.join(d, n) for n in sorted(os.listdir(d)) if os.path.isfile(os.path.join(d, n))]
    return paths


def batches_of(config):
    bs = set()
    for spec in config["actors"]:
        for row in spec.get("rows", []):
            if row["batch"] is not None:
                bs.add(row["batch"])
    return sorted(bs)


def _path_of(out, fid):
    c = consts()
    if fid == "P":
        return os.path.join(out, c["processed"])
    return os.path.join(out, c["results_dir"], c["glob"].replace("*", str(fid)))


def snapshot(out, config):
    """raw text lines of the processed file and of every node file of the scenario (None = absent)"""
    snap = {}
    for fid in ["P"] + batches_of(config):
        p = _path_of(out, fid)
        if not os.path.exists(p):
            snap[str(fid)] = None
            continue
        with builtins.open(p, newline="") as f:
            text = f.read()
        lines = text.split("\n")
        snap[str(fid)] = {"lines": lines[:-1], "complete": lines[-1] == ""}
    return snap


# --------------------------------------------------------------------------------------------
# property oracles over impl's outputs (independent csv parse; not the model)
def parse_file_independent(path):
    """-> (rows as canonical 6-tuples, problem or None)"""
    c = consts()
    with builtins.open(path, newline="") as f:
        recs = [r for r in csv.reader(f, delimiter=c["delimiter"])]
    if not recs:
        return [], "empty file (no header)"
    if recs[0] != c["fields"]:
        return [], f"first line is not the header: {recs[0]}"
    rows = []
    for r in recs[1:]:
        if len(r) != len(c["fields"]):
            return rows, f"record with {len(r)} fields: {r}"
        d = dict(zip(c["fields"], r))
        try:
            rows.append([d["name"], str(int(d["return_code"])), d["status"], str(float(d["exec_time_s"])),
                         str(float(d["completion_time"])), d["hpc_job_id"]])
        except ValueError as e:
            return rows, f"record does not convert: {r} ({e})"
    return rows, None


def _ms(rows):
    return collections.Counter(tuple(r) for r in rows)


def _diff(a, b):
    return {"missing": [list(k) for k in (b - a).elements()][:4], "extra": [list(k) for k in (a - b).elements()][:4]}


def check_disk(out, appended, rets):
    """in a state where nobody is inside a locked section: files parse, and processed + node rows = appended"""
    c = consts()
    problems = []
    on_disk = []
    proc_rows = []
    for p in _all_files(out):
        fid = fid_of(p)
        if fid is None or p.endswith(c["lock_suffix"]):
            continue
        rows, prob = parse_file_independent(p)
        if prob:
            problems.append({"oracle": "file-parses", "file": str(fid), "problem": prob})
        on_disk += rows
        if fid == "P":
            proc_rows = rows
    want = _ms([r for _, r in appended])
    if _ms(on_disk) != want:
        problems.append({"oracle": "exactly-once (processed + node files = appended so far)", **_diff(_ms(on_disk), want)})
    reported = _ms([r for rs in rets.values() for ret in rs if ret is not None for r in ret])
    direct = _ms([r for b, r in appended if b is None])
    if _ms(proc_rows) != direct + reported:
        problems.append({"oracle": "processed rows = directly appended + reported by process_results",
                         **_diff(_ms(proc_rows), direct + reported)})
    return problems


def judge(config, res):
    """-> list of (signature, what, detail)"""
    out = []
    if res["errors"]:
        out.append(("actor-raised", "an append / process_results call raised: %s" % res["errors"][0]["exception"][:120],
                    res["errors"][:3]))
    if res["stuck"]:
        out.append(("stuck", "actors never finished (lock never released / acquire never enabled)", res["stuck"]))
    if res["locks_left"]:
        out.append(("marker-left", "lock markers left behind", res["locks_left"]))
    for qp in res["quiescent_problems"][:1]:
        o = qp["problems"][0]["oracle"]
        out.append(("quiescent:" + o.split(" ")[0], "in a state with nobody inside a locked section: " + o, qp))
    # rows "written" on a non-manager node of a multi-node batch must never reach a file
    all_rows = [canon_row(r) for spec in config["actors"] if spec.get("manager", True) for r in spec.get("rows", [])]
    node_rows = [canon_row(r) for spec in config["actors"] if spec.get("manager", True) for r in spec.get("rows", []) if r["batch"] is not None]
    has_final = any(spec.get("final") for spec in config["actors"])
    if has_final and not res["stuck"]:
        if res["final_list"] is None:
            out.append(("final-unreadable", "ResultsAggregator.list_results failed at the end", None))
        elif _ms(res["final_list"]) != _ms(all_rows):
            out.append(("final-not-exactly-once", "final list_results is not exactly the appended rows",
                        _diff(_ms(res["final_list"]), _ms(all_rows))))
        rep = [r for rs in res["rets"] for ret in rs if ret is not None for r in ret]
        if _ms(rep) != _ms(node_rows):
            out.append(("reported-not-exactly-once", "process_results return values do not report every node row exactly once",
                        _diff(_ms(rep), _ms(node_rows))))
        left = [k for k, v in res["files"].items() if k != "P" and v is not None]
        if left:
            out.append(("node-file-left", "node files remain after the final collect", left))
    for k, v in res["files"].items():
        if v is not None and not v["complete"]:
            out.append(("partial-line", f"file {k} does not end with a newline", v["lines"][-1:]))
    return out


# --------------------------------------------------------------------------------------------
# choosers
def chooser_random(rng):
    return lambda en, step: rng.choice(en)


def chooser_replay(schedule, diverged=None):
    """follow a recorded schedule; where the recorded actor is not enabled on this tree (the recorded
    interleaving is impossible here) take the first enabled one and note the step in `diverged`"""
    def ch(en, step):
        if step < len(schedule) and schedule[step] in en:
            return schedule[step]
        if diverged is not None and step < len(schedule):
            diverged.append(step)
        return en[0]
    return ch


def chooser_prefix(prefix):
    """DFS: follow the indices of `prefix` into the enabled list, then always the first enabled"""
    def ch(en, step):
        if step < len(prefix):
            return en[prefix[step]]
        return en[0]
    return ch


def next_prefix(choices):
    """choices: [(index, n_enabled)] of the run just made -> the next DFS prefix or None"""
    for pos in range(len(choices) - 1, -1, -1):
        i, n = choices[pos]
        if i + 1 < n:
            return [c[0] for c in choices[:pos]] + [i + 1]
    return None


def explore(config, limit=None, **kw):
    """all maximal schedules of config by depth-first enumeration (re-execution); yields results"""
    prefix = []
    n = 0
    while prefix is not None:
        res = run_scenario(config, chooser_prefix(prefix), glob_order="sorted", **kw)
        yield res
        n += 1
        if limit is not None and n >= limit:
            return
        prefix = next_prefix(res["choices"])
