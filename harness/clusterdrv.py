"""Driver for the REAL jade.jobs.cluster.Cluster: any number of handles with per-handle host names
over one submission directory, in one process, operations executed one at a time (each runs under
the real SoftFileLock).  Used by harness/props/c10.py.

Operations (plain tuples, JSON-able):
  ("Load", host, promote, jobs)        Cluster.deserialize(dir, try_promote_to_submitter, deserialize_jobs)
  ("Do", i, "Promote")                 handle_i.promote_to_submitter()
  ("Do", i, "Demote") / "MarkComplete" / "MarkCanceled" / "Serialize" / "SerializeJobs" / "ReloadJobs"
  ("Do", i, "Update", k, b, [ids])     update_job_status([], [], k canceled jobs, set(), ids, b)
  ("Do", i, "CompleteHpc", id)         complete_hpc_job_id(str(id))
  ("Prep", i, n)                       prepare_for_resubmission(first n job names, {}); all jobs of this driver stay
                                       NOT_SUBMITTED, so the recounted submitted_jobs is 0 (model: DPrep i 0)
  ("Unwedge",)                         remove the lock marker left by an exception under the lock
Hosts are small ints (host name "host<N>"); handle i = i-th object returned by create/deserialize.
"""
import json
import logging
import os
import shutil
import tempfile

NUM_JOBS = 4
FILES = None  # filled on first use from the class constants


def _cluster_mod():
    import jade.jobs.cluster as cl
    return cl


def hostname(n):
    return "host%d" % n


def hostnum(name):
    if name is None:
        return None
    assert name.startswith("host"), name
    return int(name[4:])


_CFG_CACHE = {}


def jade_config():
    if "c" not in _CFG_CACHE:
        from harness import jadeenv
        sc = {"jobs": [{"name": "j%d" % i, "group": "g"} for i in range(NUM_JOBS)], "groups": [{"name": "g"}]}
        _CFG_CACHE["c"] = jadeenv.make_config(sc)
    return _CFG_CACHE["c"]


class Patched:
    """socket.gethostname -> the current virtual host; lock timeouts shortened (the lock itself is
    the real filelock.SoftFileLock)."""
    LOCK_TIMEOUT = 0.03

    def __init__(self):
        self.host = hostname(0)

    def __enter__(self):
        import filelock
        cl = _cluster_mod()
        self.cl = cl
        self._orig_host = cl.socket.gethostname
        self._orig_lock = cl.SoftFileLock
        outer = self
        base = filelock.SoftFileLock

        class ShortLock(base):
            def acquire(self, timeout=None, *a, **k):
                return super().acquire(outer.LOCK_TIMEOUT, *a, **k)
        cl.socket.gethostname = lambda: outer.host
        cl.SoftFileLock = ShortLock
        logging.disable(logging.CRITICAL)
        return self

    def __exit__(self, *a):
        self.cl.socket.gethostname = self._orig_host
        self.cl.SoftFileLock = self._orig_lock


def classify(exc):
    cl = _cluster_mod()
    import filelock
    if isinstance(exc, cl.ConfigVersionMismatch):
        return "RCfgMismatch"
    if isinstance(exc, cl.JobStatusVersionMismatch):
        return "RJsMismatch"
    if isinstance(exc, AssertionError):
        return "RAssertion"
    if isinstance(exc, AttributeError):
        return "RAttrError"
    if isinstance(exc, ValueError):
        return "RValueError"
    if isinstance(exc, filelock.Timeout):
        return "RBlocked"
    return "EXC:" + type(exc).__name__ + ":" + str(exc)[:200]


class World:
    """One submission directory created by the real Cluster.create on host `host0`."""

    def __init__(self, patched, host0, parent=None):
        self.p = patched
        self.cl = patched.cl
        self.Cluster = self.cl.Cluster
        self.dir = tempfile.mkdtemp(prefix="verif_c10_", dir=parent)
        self.names = {
            "cfg": self.Cluster.CLUSTER_CONFIG_FILE, "cfg_vf": self.Cluster.CONFIG_VERSION_FILE,
            "js": self.Cluster.JOB_STATUS_FILE, "js_vf": self.Cluster.JOB_STATUS_VERSION_FILE,
        }
        self.lock = os.path.join(self.dir, self.Cluster.LOCK_FILE)
        self.p.host = hostname(host0)
        self.handles = [self.Cluster.create(self.dir, jade_config())]
        self.hosts = [host0]

    def close(self):
        shutil.rmtree(self.dir, ignore_errors=True)

    # -- observation ---------------------------------------------------------------------------
    def files(self):
        out = {}
        for k, n in self.names.items():
            path = os.path.join(self.dir, n)
            out[k] = open(path, "rb").read() if os.path.exists(path) else None
        return out

    def extra_files(self):
        return sorted(f for f in os.listdir(self.dir) if f.endswith(".bk"))

    def wedged(self):
        return os.path.exists(self.lock)

    def disk_view(self):
        f = self.files()
        cfg = json.loads(f["cfg"])
        js = json.loads(f["js"])
        return {"cfg": cfg_view(cfg), "cfg_vf": int(f["cfg_vf"].decode().strip()),
                "js": js_view(js), "js_vf": int(f["js_vf"].decode().strip())}

    def handle_view(self, i):
        h = self.handles[i]
        cfg = json.loads(h._config.json())
        js = None if h._job_status is None else js_view(json.loads(h._job_status.json()))
        clean = hash(h._config.json()) == h._config_hash
        return {"host": self.hosts[i], "cfg": cfg_view(cfg), "clean": clean, "js": js}

    def stale(self, i):
        """(config copy stale, job-status copy stale or None) judged from impl's own objects/files"""
        h = self.handles[i]
        f = self.files()
        cs = h._config.version != int(f["cfg_vf"].decode().strip())
        js = None if h._job_status is None else h._job_status.version != int(f["js_vf"].decode().strip())
        return cs, js

    # -- operations ----------------------------------------------------------------------------
    def apply(self, op):
        """-> result constructor text (RLoaded as 'RLoaded i b')"""
        kind = op[0]
        if kind == "Unwedge":
            if os.path.exists(self.lock):
                os.remove(self.lock)
            return "ROk"
        if os.path.exists(self.lock):
            os.utime(self.lock)  # keep the marker fresh: filelock breaks malformed markers older than 2 s
        try:
            if kind == "Load":
                _, host, promote, jobs = op
                self.p.host = hostname(host)
                c, promoted = self.Cluster.deserialize(self.dir, try_promote_to_submitter=bool(promote),
                                                       deserialize_jobs=bool(jobs))
                self.handles.append(c)
                self.hosts.append(host)
                return "RLoaded %d %s" % (len(self.handles) - 1, "true" if promoted else "false")
            if kind == "Prep":
                _, i, n = op
                if i >= len(self.handles):
                    return "RNoHandle"
                assert 0 <= n <= NUM_JOBS
                self.handles[i].prepare_for_resubmission({"j%d" % k for k in range(n)}, {})
                return "ROk"
            assert kind == "Do", op
            i, name = op[1], op[2]
            if i >= len(self.handles):
                return "RNoHandle"
            h = self.handles[i]
            self.p.host = hostname(self.hosts[i])
            if name == "Promote":
                return "RBool true" if h.promote_to_submitter() else "RBool false"
            if name == "Demote":
                h.demote_from_submitter()
            elif name == "MarkComplete":
                h.mark_complete()
            elif name == "MarkCanceled":
                h.mark_canceled()
            elif name == "Serialize":
                h.serialize("verif")
            elif name == "SerializeJobs":
                h.serialize_jobs("verif")
            elif name == "ReloadJobs":
                h.deserialize_jobs()
            elif name == "Update":
                _, _, _, k, b, ids = op
                h.update_job_status([], [], [None] * k, set(), [str(x) for x in ids], b)
            elif name == "CompleteHpc":
                h.complete_hpc_job_id(str(op[3]))
            else:
                raise RuntimeError("unknown op %r" % (op,))
            return "ROk"
        except Exception as e:  # noqa: BLE001 - every exception class is an observation
            return classify(e)


def cfg_view(cfg):
    return {"version": cfg["version"], "submitter": hostnum(cfg["submitter"]), "complete": bool(cfg["is_complete"]),
            "canceled": bool(cfg["is_canceled"]), "submitted": cfg["submitted_jobs"]}


def js_view(js):
    return {"version": js["version"], "batch": js["batch_index"], "ids": [int(x) for x in js["hpc_job_ids"]]}


# -- which files an operation is allowed to write, and whether it is a write at all ----------------
CFG_WRITERS = {"Promote", "Demote", "MarkComplete", "MarkCanceled", "Serialize", "Update"}
JS_WRITERS = {"SerializeJobs", "Update", "CompleteHpc"}


def op_writes(op):
    """(writes config, writes job status) for operations on existing handles"""
    if op[0] == "Prep":
        return True, True
    if op[0] == "Do":
        return op[2] in CFG_WRITERS, op[2] in JS_WRITERS
    return False, False


def op_handle(op):
    if op[0] in ("Do", "Prep"):
        return op[1]
    return None


# -- Coq terms -----------------------------------------------------------------------------------------
def t_opt(x, f=lambda v: "%d%%N" % v):
    return "None" if x is None else "(Some %s)" % f(x)


def t_bool(b):
    return "true" if b else "false"


def t_cfg(c):
    return "(mkCfg %d%%N %s %s %s %d%%N)" % (c["version"], t_opt(c["submitter"]), t_bool(c["complete"]),
                                             t_bool(c["canceled"]), c["submitted"])


def t_js(j):
    return "(mkJs %d%%N %d%%N [%s])" % (j["version"], j["batch"], "; ".join("%d%%N" % x for x in j["ids"]))


def t_disk(d):
    return "(mkDisk %s %d%%N %s %d%%N)" % (t_cfg(d["cfg"]), d["cfg_vf"], t_js(d["js"]), d["js_vf"])


def t_result(r):
    if r.startswith("RLoaded"):
        _, i, b = r.split()
        return "(RLoaded %s%%nat %s)" % (i, b)
    if r.startswith("RBool"):
        return "(" + r + ")"
    return r


def t_hview(v):
    return "(%d%%N, %s, %s, %s)" % (v["host"], t_cfg(v["cfg"]), t_bool(v["clean"]), t_opt(v["js"], t_js))


def t_op(op):
    k = op[0]
    if k == "Unwedge":
        return "DOp Unwedge"
    if k == "Load":
        return "DOp (Load %d%%N %s %s)" % (op[1], t_bool(op[2]), t_bool(op[3]))
    if k == "Prep":
        return "DPrep %d%%nat 0%%N" % op[1]
    i, name = op[1], op[2]
    if name == "Update":
        h = "(HUpdate %d%%N %d%%N [%s])" % (op[3], op[4], "; ".join("%d%%N" % x for x in op[5]))
    elif name == "CompleteHpc":
        h = "(HCompleteHpc %d%%N)" % op[3]
    else:
        h = "H" + name
    return "DOp (Do %d%%nat %s)" % (i, h)


def run_sequence(patched, host0, ops, parent=None, on_step=None):
    """Execute ops on a fresh world.  -> dict(results, steps=[(result, disk_view, wedged)], handles)
    on_step(world, k, op, before_files, before_stale, result, after_files) is called for every op."""
    w = World(patched, host0, parent)
    try:
        steps = []
        for k, op in enumerate(ops):
            before = w.files()
            hi = op_handle(op)
            st = w.stale(hi) if hi is not None and hi < len(w.handles) else None
            pre = w.handle_view(hi) if hi is not None and hi < len(w.handles) else None
            r = w.apply(op)
            after = w.files()
            steps.append((r, w.disk_view(), w.wedged()))
            if on_step:
                on_step(w, k, op, before, st, pre, r, after)
        handles = [w.handle_view(i) for i in range(len(w.handles))]
        return {"steps": steps, "handles": handles, "bk_files": w.extra_files()}
    finally:
        w.close()


def expected_term(res):
    steps = "[" + "; ".join("(%s, %s, %s)" % (t_result(r), t_disk(d), t_bool(wd)) for r, d, wd in res["steps"]) + "]"
    hs = "[" + "; ".join(t_hview(v) for v in res["handles"]) + "]"
    return "(%s, %s)" % (steps, hs)


def input_term(host0, ops):
    return "(%d%%N, [%s])" % (host0, "; ".join(t_op(o) for o in ops))
