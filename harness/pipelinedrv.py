"""Driver for property C15: the REAL PipelineManager / pipeline CLI callbacks / JobSubmitter.
_handle_completion of /repo on temporary directories, observed at their boundaries.

Boundaries that are replaced (everything else is jade's own code):
  jade.jobs.pipeline_manager.run_command            the auto-config command of a stage ("mk <j>"): writes (or not) the
                                                    stage's config file, as the op's `env` says
  jade.jobs.pipeline_manager.create_config_from_file  wrapped: records which stage's config is read, then the real one
  JobSubmitter.run_submit_jobs                      stub: records (config tag, output dir, pipeline_stage_num), returns
                                                    env["ret"]; in `handover` mode it really creates the JobSubmitter and
                                                    the Cluster (as the real function does) but does not run jobs
  jade.jobs.job_submitter.run_command               (hand-over) `jade pipeline submit-next-stage ...` is dispatched to the
                                                    real click command (the jade executable does not exist); teardown recorded
  Cluster.mark_complete                             wrapped: records the event, then the real one

An op is ("submit", autos, env) | ("next", k, rc_or_None, env); env = {"auto": "ok"|"ret"|"nofile", "cfg": bool, "ret": int}.
Results are returned as Coq terms of Pipeline.presult / pevent so that the comparison is done by coqc.
"""
import contextlib
import io
import json
import os
import re
import shlex
import shutil
import tempfile

GOOD_ENV = {"auto": "ok", "cfg": True, "ret": 0}


def cZ(n):
    return f"({int(n)})%Z"


def env_term(e):
    a = {"ok": "AutoOk", "ret": "AutoRetNonzero", "nofile": "AutoNoFile"}[e["auto"]]
    return f"{{| e_auto := {a}; e_cfg_ok := {'true' if e['cfg'] else 'false'}; e_ret := {cZ(e['ret'])} |}}"


def op_term(op):
    if op[0] == "submit":
        return f"(OpSubmit [{'; '.join('true' if a else 'false' for a in op[1])}] {env_term(op[2])})"
    _, k, rc, e = op
    return f"(OpNext {cZ(k)} {'None' if rc is None else '(Some ' + cZ(rc) + ')'} {env_term(e)})"


def obs_term(obs):
    if obs is None:
        return "None"
    st, rcs, comp = obs
    rl = "; ".join("None" if r is None else f"Some {cZ(r)}" for r in rcs)
    return f"(Some ({cZ(st)}, [{rl}], {'true' if comp else 'false'}))"


def ev_term(ev):
    name = {"advance": "EvAdvance", "auto": "EvAutoConfig", "read": "EvReadConfig", "submit": "EvSubmit",
            "mark": "EvMarkComplete", "resubmit": "EvResubmit"}[ev[0]]
    return "(" + name + " " + " ".join(cZ(x) for x in ev[1:]) + ")"


def events_term(evs):
    return "[" + "; ".join(ev_term(e) for e in evs) + "]"


def result_term(r):
    return r[0] if len(r) == 1 else f"({r[0]} {cZ(r[1])})"


_TAG = re.compile(r"stage-(\d+)")


class PipelineWorld:
    """One pipeline output directory under `root`, driven through the real code."""

    def __init__(self, root, handover=False, with_teardown=False, local_chain=False):
        self.root = root
        self.cwd = os.path.join(root, "cwd")
        os.makedirs(self.cwd)
        self.out = os.path.join(root, "out")
        self.handover = handover
        self.with_teardown = with_teardown
        self.local_chain = local_chain    # hand-over mode: every submission completes inside run_submit_jobs (local mode)
        self.handover_marks = []
        self.chain_results = []
        self.events = []          # the impl-side event log (tuples)
        self.submissions = []     # dicts: config_tag, output, psn
        self.env = dict(GOOD_ENV)
        self.autos = None
        self.oracle_failures = [] # (signature, what, detail) found by boundary checks
        self._cfg_raised = False
        self._pending = None      # (k, rc) of the submit-next-stage call in flight
        self._installed = False
        self._old_cwd = None

    # ---- boundary stand-ins ---------------------------------------------------------------------
    def _write_stage_config(self, path, j, valid=True):
        from jade.extensions.generic_command.generic_command_configuration import GenericCommandConfiguration
        from jade.extensions.generic_command.generic_command_parameters import GenericCommandParameters
        if not valid:
            with open(path, "w") as f:
                f.write("{ this is not json: stage-%d" % j)
            return
        cfg = GenericCommandConfiguration()
        cfg.add_job(GenericCommandParameters(command="echo stage-%d" % j, name="job-stage-%d" % j))
        if self.with_teardown:
            cfg.teardown_command = "teardown stage-%d" % j
        cfg.dump(path, indent=2)

    def _fake_auto_config(self, cmd, *a, **kw):
        m = re.fullmatch(r"mk (\d+)", cmd.strip())
        if not m:
            raise RuntimeError("unexpected command at the auto-config boundary: %r" % cmd)
        j = int(m.group(1))
        self.events.append(("auto", j))
        self._check_previous_complete("auto-config command", j)
        if self.env["auto"] == "ret":
            return 3
        if self.env["auto"] == "nofile":
            return 0
        self._write_stage_config(os.path.join(os.getcwd(), "config-stage%d.json" % j), j, valid=self.env["cfg"])
        return 0

    def _wrapped_create_config(self, path, *a, **kw):
        j = -1
        try:
            with open(path) as f:
                m = _TAG.search(f.read())
            if m:
                j = int(m.group(1))
        except OSError:
            pass
        self.events.append(("read", j))
        self._check_previous_complete("reading the stage config", j)
        try:
            return self._real_create_config(path, *a, **kw)
        except BaseException:
            self._cfg_raised = True
            raise

    def _fake_run_submit_jobs(self, config, output, local=False, dry_run=False, pipeline_stage_num=None):
        tags = sorted({int(m.group(1)) for job in config.iter_jobs() for m in [_TAG.search(job.command)] if m})
        sub = {"config_tag": tags[0] if len(tags) == 1 else -1, "output": os.path.relpath(output, self.out),
               "psn": pipeline_stage_num}
        self.submissions.append(sub)
        self.events.append(("submit", pipeline_stage_num if isinstance(pipeline_stage_num, int) else -1))
        self._check_previous_complete("run_submit_jobs", pipeline_stage_num if isinstance(pipeline_stage_num, int) else -1)
        if self.handover:
            from jade.jobs.job_submitter import JobSubmitter
            from jade.jobs.cluster import Cluster
            os.makedirs(output, exist_ok=True)
            mgr = JobSubmitter.create(config, output=output)
            cluster = Cluster.create(output, mgr.config, pipeline_stage_num=pipeline_stage_num)
            cluster.demote_from_submitter()
            if self.local_chain:
                # local mode: submit_jobs runs the jobs and reaches _handle_completion before run_submit_jobs returns
                out, _psn = self.complete_stage(pipeline_stage_num)
                self.chain_results.append((pipeline_stage_num, out))
                return out if isinstance(out, int) else 1
        return self.env["ret"]

    def _check_previous_complete(self, what, j):
        """Direct oracle (hand-over mode): when stage j>1 is configured/submitted, the submission of stage j-1 exists
        and its cluster_config.json says is_complete."""
        if not self.handover or j <= 1:
            return
        f = os.path.join(self.out, "output-stage%d" % (j - 1), "cluster_config.json")
        ok = False
        if os.path.exists(f):
            with open(f) as fh:
                ok = bool(json.load(fh).get("is_complete"))
        if not ok:
            self.oracle_failures.append(("next-stage-before-complete",
                                         f"{what} of stage {j} while the submission of stage {j - 1} is not marked complete",
                                         {"stage": j, "boundary": what, "events_so_far": list(self.events)}))

    # ---- install / remove -----------------------------------------------------------------------
    def __enter__(self):
        import jade.jobs.pipeline_manager as pm
        from jade.jobs.job_submitter import JobSubmitter
        self._pm = pm
        self._saved = (pm.run_command, pm.create_config_from_file, JobSubmitter.__dict__["run_submit_jobs"])
        self._real_create_config = pm.create_config_from_file
        pm.run_command = self._fake_auto_config
        pm.create_config_from_file = self._wrapped_create_config
        self._real_serialize = pm.PipelineManager._serialize
        world = self

        def _wrapped_serialize(mgr):
            # boundary: pipeline.json is about to be rewritten; an advance = the current stage on disk changes
            disk = world.read_state()
            if disk is not None and disk[0] != mgr.stage_num:
                world.events.append(("advance",) + (world._pending or (-1, -1)))
            return world._real_serialize(mgr)
        pm.PipelineManager._serialize = _wrapped_serialize
        JobSubmitter.run_submit_jobs = staticmethod(self._fake_run_submit_jobs)
        if self.handover:
            self._install_handover()
        self._old_cwd = os.getcwd()
        os.chdir(self.cwd)
        self._env_backup = {k: os.environ.get(k) for k in ("JADE_PIPELINE_OUTPUT_DIR", "JADE_PIPELINE_STATUS_FILE",
                                                            "JADE_PIPELINE_STAGE_ID")}
        self._installed = True
        return self

    def __exit__(self, *exc):
        from jade.jobs.job_submitter import JobSubmitter
        pm = self._pm
        pm.run_command, pm.create_config_from_file, rsj = self._saved
        pm.PipelineManager._serialize = self._real_serialize
        if self.handover:
            self._jsm.run_command = self._saved_js_run_command
            self._Cluster.mark_complete = self._real_mark
        JobSubmitter.run_submit_jobs = rsj
        os.chdir(self._old_cwd)
        for k, v in self._env_backup.items():
            if v is None:
                os.environ.pop(k, None)
            else:
                os.environ[k] = v
        self._installed = False
        return False

    # ---- pipeline.json --------------------------------------------------------------------------
    def read_state(self):
        f = os.path.join(self.out, "pipeline.json")
        if not os.path.exists(f):
            return None
        with open(f) as fh:
            d = json.load(fh)
        return (d["stage_num"], [s["return_code"] for s in d["stages"]], bool(d["is_complete"]))

    def make_pipeline_file(self, autos):
        """pipeline config file for these stages, produced by jade's own creators (mixed: one field patched)."""
        from jade.jobs.pipeline_manager import PipelineManager
        from jade.models import SubmitterParams, HpcConfig, LocalHpcConfig
        sp = SubmitterParams(hpc_config=HpcConfig(hpc_type="local", hpc=LocalHpcConfig()), generate_reports=False,
                             resource_monitor_type="none")
        path = os.path.join(self.cwd, "user-pipeline.json")
        n = len(autos)
        if all(autos) and n:
            PipelineManager.create_config_from_commands(["mk %d" % (i + 1) for i in range(n)], path, sp)
        elif not any(autos):
            PipelineManager.create_config_from_files(["filecfg-stage%d.json" % (i + 1) for i in range(n)], path, sp)
        else:
            PipelineManager.create_config_from_commands(["mk %d" % (i + 1) for i in range(n)], path, sp)
            with open(path) as f:
                d = json.load(f)
            for i, a in enumerate(autos):
                if not a:
                    d["stages"][i]["auto_config_cmd"] = None
                    d["stages"][i]["config_file"] = "filecfg-stage%d.json" % (i + 1)
            with open(path, "w") as f:
                json.dump(d, f, indent=2)
        return path

    def _prepare_files(self, env):
        """the config files of stages without auto-config: valid or not, as env says"""
        for i, a in enumerate(self.autos or []):
            if not a:
                self._write_stage_config(os.path.join(self.cwd, "filecfg-stage%d.json" % (i + 1)), i + 1, valid=env["cfg"])

    # ---- operations -----------------------------------------------------------------------------
    def do(self, op):
        """-> (result tuple, observation after, events of this op)"""
        from jade.exceptions import InvalidParameter, ExecutionError
        import jade.cli.pipeline as cli
        from jade.jobs.pipeline_manager import PipelineManager
        before = self.read_state()
        n_ev, n_sub = len(self.events), len(self.submissions)
        self._cfg_raised = False
        env = op[-1]
        self.env = dict(env)
        self._pending = (op[1], op[2]) if op[0] == "next" and op[2] is not None else None
        exc = None
        sink = io.StringIO()
        try:
            with contextlib.redirect_stdout(sink), contextlib.redirect_stderr(sink):
                if op[0] == "submit":
                    if self.autos is None:
                        self.autos = list(op[1])
                    cfgfile = self.make_pipeline_file(op[1])
                    self._prepare_files(env)
                    cli.submit.callback(cfgfile, self.out, False, verbose=False)
                else:
                    self._prepare_files(env)
                    _, k, rc, _e = op
                    if rc is None:
                        PipelineManager.load(self.out).submit_next_stage(k)
                    else:
                        cli.submit_next_stage.callback(self.out, k, rc, verbose=False)
        except SystemExit as e:
            exc = None if e.code in (0, None) else e
        except BaseException as e:   # noqa: the exception class is the observation
            exc = e
        after = self.read_state()
        new_subs = self.submissions[n_sub:]
        evs = self.events[n_ev:]
        stage_after = after[0] if after else -1
        if exc is None:
            res = ("ROkSubmitted", new_subs[-1]["psn"]) if new_subs else ("ROkComplete",)
        elif isinstance(exc, SystemExit):
            res = ("RErrExists",)
        elif before is None and after is None and op[0] == "next":
            # no pipeline directory: the CLI's log-file setup (ValueError) or PipelineManager.load (FileNotFoundError) fails
            res = ("RErrNoPipeline",)
        elif isinstance(exc, AssertionError):
            res = ("RErrAssert",)
        elif isinstance(exc, InvalidParameter) and not self._cfg_raised:
            res = ("RErrInvalidParameter",)
        elif isinstance(exc, IndexError) and not self._cfg_raised:
            res = ("RErrIndexRc",) if before == after else ("RErrIndexStage",)
        elif self._cfg_raised:
            res = ("RErrConfig", stage_after)
        elif isinstance(exc, ExecutionError):
            res = ("RErrStageFailed", stage_after) if new_subs else ("RErrAutoConfig", stage_after)
        else:
            res = ("RErrOther_" + type(exc).__name__,)
        return res, after, evs, (type(exc).__name__ if exc is not None else None)

    # ---- hand-over ------------------------------------------------------------------------------
    def _install_handover(self):
        import jade.jobs.job_submitter as jsm
        from jade.jobs.cluster import Cluster
        import jade.cli.pipeline as cli
        world = self
        self._jsm, self._Cluster = jsm, Cluster
        self._saved_js_run_command = jsm.run_command
        self._real_mark = real_mark = Cluster.mark_complete

        def stage_of(path):
            m = re.search(r"output-stage(\d+)$", str(path).rstrip("/"))
            return int(m.group(1)) if m else -1

        def fake_run_command(cmd, *a, **kw):
            argv = shlex.split(cmd)
            if argv[:3] == ["jade", "pipeline", "submit-next-stage"]:
                opts = dict(x[2:].split("=", 1) for x in argv[4:] if x.startswith("--") and "=" in x)
                try:
                    world._pending = (int(opts["stage-num"]), int(opts["return-code"]))
                except (KeyError, ValueError):
                    world._pending = None
                try:
                    cli.pipeline.main(argv[2:], standalone_mode=False)
                    return 0
                except SystemExit as e:
                    return 0 if e.code in (0, None) else int(e.code)
                except BaseException:
                    return 1
            if argv[:1] == ["teardown"]:
                out = (kw.get("env") or {}).get("JADE_RUNTIME_OUTPUT", "")
                world.handover_marks.append(("teardown", stage_of(out), os.path.exists(os.path.join(out, "results.json"))))
                return 0
            raise RuntimeError("unexpected command in _handle_completion: %r" % cmd)

        def mark(selfc):
            if getattr(world, "fail_mark_once", False):
                # the completion flag cannot be persisted: this copy of the config is stale (e.g. cancel-jobs wrote in
                # the meantime) - what Cluster raises in that case
                world.fail_mark_once = False
                from jade.jobs.cluster import ConfigVersionMismatch
                world.handover_marks.append(("mark_rejected", stage_of(selfc.config.path), True))
                raise ConfigVersionMismatch("injected: stale config at mark_complete")
            r = real_mark(selfc)
            psn = selfc.config.pipeline_stage_num
            world.events.append(("mark", psn if psn is not None else -1))
            world.handover_marks.append(("mark_complete", stage_of(selfc.config.path), True))
            return r

        jsm.run_command = fake_run_command
        Cluster.mark_complete = mark

    def complete_stage(self, k, with_results=True, fail_mark=False):
        """Run the real JobSubmitter._handle_completion on stage k's submission (as the last submitter of that
        submission would).  Returns (Status value | exception name, pipeline_stage_num of the submission)."""
        from jade.jobs.job_submitter import JobSubmitter
        from jade.jobs.cluster import Cluster
        from jade.jobs.results_aggregator import ResultsAggregator
        from jade.result import Result
        output = os.path.join(self.out, "output-stage%d" % k)
        if not os.path.exists(os.path.join(output, "results.csv")):
            ResultsAggregator.create(output)
            if with_results:
                ResultsAggregator.append(output, Result("job-stage-%d" % k, 0, "finished", 1.0, 0.0))
        mgr = JobSubmitter.load(output)
        cluster, _ = Cluster.deserialize(output, try_promote_to_submitter=True, deserialize_jobs=True)
        psn = cluster.config.pipeline_stage_num
        sink = io.StringIO()
        self.fail_mark_once = bool(fail_mark)
        try:
            with contextlib.redirect_stdout(sink), contextlib.redirect_stderr(sink):
                res = mgr._handle_completion(cluster)
            out = res.value
        except BaseException as e:
            out = type(e).__name__
        finally:
            try:
                cluster.demote_from_submitter()
            except BaseException:
                pass
        return out, psn

    def resubmit_stage(self, k):
        """What `jade resubmit-jobs` does to the cluster state of a completed submission (all jobs)."""
        from jade.jobs.cluster import Cluster
        output = os.path.join(self.out, "output-stage%d" % k)
        cluster, promoted = Cluster.deserialize(output, try_promote_to_submitter=True, deserialize_jobs=True)
        names = {j.name for j in cluster.iter_jobs()}
        cluster.prepare_for_resubmission(names, {})
        cluster.serialize("resubmit")
        cluster.serialize_jobs("resubmit")
        cluster.demote_from_submitter()
        self.events.append(("resubmit", k))


def run_history(ops, handover=False):
    """Run one history on a fresh temp dir.  -> list of (result, obs, events, excname), world summary"""
    root = tempfile.mkdtemp(prefix="verif_c15_")
    try:
        with PipelineWorld(root) as w:
            steps = [w.do(op) for op in ops]
            return steps, {"events": list(w.events), "submissions": list(w.submissions), "final": w.read_state()}
    finally:
        shutil.rmtree(root, ignore_errors=True)
