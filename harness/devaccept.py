"""Development tool (not used by any check): run N virtual-cluster cases per mode and report which
impl traces the Coq acceptor (optionally a scratch copy, VERIF_COQ_DIR) rejects.
usage: devaccept.py <n per mode> [mode ...]"""
import sys, json, collections
from harness import core, sysrun, syscheck

def main():
    n = int(sys.argv[1]); modes = sys.argv[2:] or list(syscheck.MODES)
    cases = [(0, d) for d in syscheck.DIRECTED] + [(777000 + i, m) for m in modes for i in range(n)]
    results = syscheck.run_cases(cases)
    items = [(sc, (r["trace"] if not plan.get("local") else [])) for _, _, sc, plan, r in results]
    acc = sysrun.accept_traces(items, name="dev")
    rej = collections.Counter(); ffc = collections.Counter(); shown = [0]
    for (seed, mode, sc, plan, r), a in zip(results, acc):
        if not a["accepted"]:
            rej[mode] += 1
            if rej[mode] <= 2:
                tr = r["trace"]; i = a["reject_index"]
                print("REJECT", seed, mode, a["reject_term"][:300])
                print("   raw:", json.dumps(tr[i])[:300] if i is not None and i < len(tr) else None)
                print("   before:", [e["k"] for e in tr[max(0, i - 8):i]])
        pyff = syscheck.fault_free(plan, r) and syscheck.acyclic(sc)
        ffc[(mode, pyff, a.get("fault_free"))] += 1
        if pyff and not a.get("fault_free") and a["accepted"] and shown[0] < 3:
            shown[0] += 1
            print("PY-FAULT-FREE but Coq fault_free=false:", seed, mode, a["first_fault"], a["first_fault_index"])
            fi = a["first_fault_index"] or 0
            print("    context:", [(e["k"], e.get("pid"), e.get("batch")) for e in r["trace"][max(0, fi - 12):fi + 2]])
        bad = [m for m, ok in a["monitors"].items() if not ok]
        if bad:
            print("MONITOR", seed, mode, bad)
    print("cases", len(cases), "rejected", dict(rej))
    print("fault_free (mode, python, coq):", dict(ffc))

main()
