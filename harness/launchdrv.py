"""Driver of JADE's REAL launch path for the C19 check.

Everything here is /repo's own code: GenericCommandConfiguration + GenericCommandParameters jobs, a
SubmissionGroup, JobRunner(config, output, batch_id) and its _generate_jobs() (which calls
GenericCommandExecution.generate_command and builds the AsyncCliCommand objects with exactly the
constructor arguments the runner uses), AsyncCliCommand.run() (real shlex.split, real
subprocess.Popen of harness/probe.py), is_complete() polling, _complete() -> ResultsAggregator.append,
and the rows are read back with ResultsAggregator.load_node_results(...).get_results().
Only the scheduling loop (JobQueue) is replaced by the small loop in run_async_jobs.
"""
import json
import logging
import os
import time
from pathlib import Path

PROBE = str(Path(__file__).resolve().parent / "probe.py")
PYTHON = "/venv/bin/python"
PROBE_CMD = f"{PYTHON} {PROBE}"


class Launch:
    """One runner = one output directory = one batch of jobs on one (pretended) node."""

    def __init__(self, output, specs, hpc_type="slurm", batch_id=1, slurm_job_id="4242", node_id="0"):
        """specs: list of dict(name, command, append_job_name, append_output_dir); the commands run
        probe.py with a --key=K argument under which the probe files its dump"""
        logging.disable(logging.CRITICAL)
        from jade.extensions.generic_command.generic_command_configuration import GenericCommandConfiguration
        from jade.extensions.generic_command.generic_command_parameters import GenericCommandParameters
        from jade.models import SubmitterParams, HpcConfig, SubmissionGroup
        from jade.jobs.job_runner import JobRunner
        self.output = str(output)
        self.batch_id = batch_id
        self.hpc_type = hpc_type
        self.specs = specs
        self.probe_dir = os.path.join(self.output, "_probe")
        os.makedirs(self.probe_dir, exist_ok=True)
        self.saved_env = {k: os.environ.get(k) for k in ("SLURM_JOB_ID", "SLURM_NODEID", "C19_PROBE_DIR", "C19_PASSTHROUGH")}
        if hpc_type == "slurm":
            os.environ["SLURM_JOB_ID"] = slurm_job_id
            os.environ["SLURM_NODEID"] = node_id
        else:
            os.environ.pop("SLURM_JOB_ID", None)
        os.environ["C19_PROBE_DIR"] = self.probe_dir
        os.environ["C19_PASSTHROUGH"] = "inherited-" + str(batch_id)
        self.expected_hpc_id = slurm_job_id if hpc_type == "slurm" else None
        config = GenericCommandConfiguration()
        for i, s in enumerate(specs):
            job = GenericCommandParameters(
                name=s["name"], command=s["command"], append_job_name=s["append_job_name"],
                append_output_dir=s["append_output_dir"], job_id=i + 1)
            # JADE's pydantic models normalise strings (strip); the check only uses normal forms.  A name that
            # changes would break the driver's bookkeeping; a command that JADE stores differently from what was
            # configured is NOT a harness error: the oracles compare the started process with the CONFIGURED
            # command, so a harmful rewrite shows up there with this job as the failing input.
            if job.name != s["name"]:
                raise ValueError("launch driver: job name was normalised by JADE: %r -> %r" % (s["name"], job.name))
            if job.command != s["command"]:
                self.rewritten = getattr(self, "rewritten", []) + [(s["name"], s["command"], job.command)]
            config.add_job(job)
        hpc = {"account": "acct"} if hpc_type == "slurm" else {}
        hpcc = HpcConfig(hpc_type=hpc_type, hpc=hpc)
        config.append_submission_group(SubmissionGroup(name="default", submitter_params=SubmitterParams(hpc_config=hpcc)))
        self.config = config
        self.runner = JobRunner(config, self.output, batch_id=batch_id)
        self.async_jobs = self.runner._generate_jobs(os.path.join(self.output, "config_for_execution.json"), False)
        self.run_errors = {}

    def restore_env(self):
        for k, v in self.saved_env.items():
            if v is None:
                os.environ.pop(k, None)
            else:
                os.environ[k] = v

    def commands(self):
        """name -> the command string handed to AsyncCliCommand (generate_command's real output)"""
        return {j.name: j._cli_cmd for j in self.async_jobs}

    def run_async_jobs(self, parallel=12, timeout=120, skip=()):
        """run() every job (except the names in skip), at most `parallel` at a time, poll is_complete()
        until all are done."""
        pending = [j for j in self.async_jobs if j.name not in skip]
        running = []
        t0 = time.time()
        while pending or running:
            while pending and len(running) < parallel:
                j = pending.pop(0)
                try:
                    j.run()
                    running.append(j)
                except Exception as e:  # e.g. ValueError from shlex.split: nothing was started
                    self.run_errors[j.name] = f"{type(e).__name__}: {e}"
            still = []
            for j in running:
                if not j.is_complete():
                    still.append(j)
            running = still
            if running:
                time.sleep(0.004)
            if time.time() - t0 > timeout:
                raise RuntimeError("launch driver: jobs did not finish in %ss: %s" % (timeout, [j.name for j in running]))

    def cancel(self, names):
        for j in self.async_jobs:
            if j.name in names:
                j.cancel()

    # ---- observations ----
    def rows(self):
        from jade.jobs.results_aggregator import ResultsAggregator
        agg = ResultsAggregator.load_node_results(self.output, self.batch_id)
        if not os.path.exists(agg._filename):
            return []
        return agg.get_results()

    def raw_rows_text(self):
        p = os.path.join(self.output, "results", f"results_batch_{self.batch_id}.csv")
        return open(p).read() if os.path.exists(p) else ""

    def probe_dump(self, key):
        """key: the K of the job's --key=K argument"""
        p = os.path.join(self.probe_dir, str(key) + ".json")
        if not os.path.exists(p):
            return None
        with open(p) as f:
            return json.load(f)

    def stdio_listing(self):
        d = os.path.join(self.output, "job-stdio")
        return sorted(os.listdir(d)) if os.path.isdir(d) else []

    def read_stdio(self, filename):
        with open(os.path.join(self.output, "job-stdio", filename), errors="surrogateescape") as f:
            return f.read()

    def return_codes(self):
        return {j.name: j.return_code for j in self.async_jobs}
