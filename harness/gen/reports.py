"""Translator target for C20 (Gen/ReportsGen.v): the declarative parts of the report code.

* jade/enums.py::JobCompletionStatus                      -> status vocabulary
* jade/result.py::Result.is_successful/is_failed/is_canceled -> boolean predicates over (return code, status)
* jade/jobs/job_submitter.py::_build_results               -> classification chain + summary keys
* jade/result.py::ResultsSummary.get_results_by_type / show_results -> classification chains
* every `Result(...)` construction in jade/ (the rows JADE can write) -> writer shapes
* jade/events.py::EventsSummary.RESOURCE_STATS             -> names stored as Parquet, not JSON
* jade/resource_monitor.py::ResourceMonitorAggregator.__init__ -> initial running summaries

Fail closed: every extractor checks the exact syntactic shape it knows.
"""
import ast
import sys

from harness.translate import Src, HEADER, attr_path, calls_in, clist, const_int, const_str, cstr, enum_members

STATUS_MEMBERS = ["FINISHED", "CANCELED", "MISSING"]
PREDICATES = ["is_canceled", "is_failed", "is_successful"]


def _strip_doc(body):
    return [n for n in body if not (isinstance(n, ast.Expr) and isinstance(n.value, ast.Constant)
                                    and isinstance(n.value.value, str))]


def _predicate(src, name):
    """return <self.return_code ==|!= 0> and self.status == JobCompletionStatus.<M>.value"""
    f = src.func(name, "Result")
    body = _strip_doc(f.body)
    if len(body) != 1 or not isinstance(body[0], ast.Return):
        src.fail(f"Result.{name}: expected a single return statement", f)
    e = body[0].value
    if not (isinstance(e, ast.BoolOp) and isinstance(e.op, ast.And) and len(e.values) == 2):
        src.fail(f"Result.{name}: expected `<rc test> and <status test>`", e)
    rc, st = e.values
    if not (isinstance(rc, ast.Compare) and len(rc.ops) == 1 and ast.unparse(rc.left) == "self.return_code"
            and isinstance(rc.ops[0], (ast.Eq, ast.NotEq)) and const_int(src, rc.comparators[0]) == 0):
        src.fail(f"Result.{name}: expected self.return_code ==/!= 0", rc)
    rc_zero = isinstance(rc.ops[0], ast.Eq)
    if not (isinstance(st, ast.Compare) and len(st.ops) == 1 and isinstance(st.ops[0], ast.Eq)
            and ast.unparse(st.left) == "self.status"):
        src.fail(f"Result.{name}: expected self.status == JobCompletionStatus.<M>.value", st)
    p = attr_path(st.comparators[0])
    if not (p and len(p) == 3 and p[0] == "JobCompletionStatus" and p[1] in STATUS_MEMBERS and p[2] == "value"):
        src.fail(f"Result.{name}: expected JobCompletionStatus.<M>.value", st)
    rc_term = "(rc =? 0)%Z" if rc_zero else "negb (rc =? 0)%Z"
    return f"Definition {name} (rc : Z) (st : string) : bool := {rc_term} && String.eqb st status_{p[1]}."


def _is_pred_call(node, var):
    """<var>.is_xxx() -> 'is_xxx'"""
    if isinstance(node, ast.Call) and not node.args and not node.keywords and isinstance(node.func, ast.Attribute) \
            and isinstance(node.func.value, ast.Name) and node.func.value.id == var and node.func.attr in PREDICATES:
        return node.func.attr
    return None


def _chain(src, ifnode, var, action):
    """if/elif/.../else chain over <var>.is_x().  `action(stmts)` -> label of the branch body (fail-closed).
    Returns ([(pred, label)], else_branch) with else_branch = None | (asserted_pred, label)."""
    out = []
    node = ifnode
    while True:
        if not isinstance(node, ast.If):
            src.fail("expected if/elif chain", node)
        pred = _is_pred_call(node.test, var)
        if pred is None:
            src.fail(f"expected `{var}.is_<class>()` as the branch test, got {ast.unparse(node.test)[:60]}", node)
        out.append((pred, action(node.body)))
        if not node.orelse:
            return out, None
        if len(node.orelse) == 1 and isinstance(node.orelse[0], ast.If):
            node = node.orelse[0]
            continue
        els = node.orelse
        if not (len(els) >= 1 and isinstance(els[0], ast.Assert)):
            src.fail("else branch: expected `assert <var>.is_<class>()` first", els[0])
        apred = _is_pred_call(els[0].test, var)
        if apred is None:
            src.fail("else branch: assert is not over an is_<class>() predicate", els[0])
        return out, (apred, action(els[1:]))


def _incr(src):
    def action(stmts):
        if len(stmts) != 1 or not (isinstance(stmts[0], ast.AugAssign) and isinstance(stmts[0].op, ast.Add)
                                   and isinstance(stmts[0].target, ast.Name) and const_int(src, stmts[0].value) == 1):
            src.fail("branch body: expected `<counter> += 1`", stmts[0] if stmts else None)
        return stmts[0].target.id
    return action


def _append(src, var):
    def action(stmts):
        if len(stmts) != 1 or not (isinstance(stmts[0], ast.Expr) and isinstance(stmts[0].value, ast.Call)
                                   and isinstance(stmts[0].value.func, ast.Attribute) and stmts[0].value.func.attr == "append"
                                   and isinstance(stmts[0].value.func.value, ast.Name)
                                   and len(stmts[0].value.args) == 1 and ast.unparse(stmts[0].value.args[0]) == var):
            src.fail(f"branch body: expected `<list>.append({var})`", stmts[0] if stmts else None)
        return stmts[0].value.func.value.id
    return action


def _first_if_in_for(src, f, iter_txts, var):
    for n in ast.walk(f):
        if isinstance(n, ast.For) and ast.unparse(n.iter) in iter_txts and isinstance(n.target, ast.Name) \
                and n.target.id == var:
            if not n.body or not isinstance(n.body[0], ast.If):
                src.fail("loop over the results does not start with the classification chain", n)
            return n, n.body[0]
    src.fail(f"loop `for {var} in {iter_txts}` not found", f)


def _chain_term(chain, els):
    rows = clist([f"({cstr(p)}, {cstr(l)})" for p, l in chain])
    e = "None" if els is None else f"(Some ({cstr(els[0])}, {cstr(els[1])}))"
    return rows, e


def _writer_shapes():
    """Every Result(<name>, <return code>, <status>, ...) construction outside result.py: the status
    must be a JobCompletionStatus member (directly or through a local assigned once), the return code
    an int literal, an attribute assigned an int literal in the same function, or an arbitrary
    expression (-> None = any return code)."""
    import os
    from harness.translate import REPO
    shapes = []
    for root, dirs, files in os.walk(REPO / "jade"):
        dirs[:] = sorted(d for d in dirs if d not in ("tests", "__pycache__"))
        for fn in sorted(files):
            if not fn.endswith(".py"):
                continue
            rel = os.path.relpath(os.path.join(root, fn), REPO)
            if rel == "jade/result.py":
                continue
            text = open(os.path.join(root, fn)).read()
            if "Result(" not in text:
                continue
            src = Src(rel)
            for fdef in [n for n in ast.walk(src.tree) if isinstance(n, ast.FunctionDef)]:
                for call in [n for n in ast.walk(fdef) if isinstance(n, ast.Call) and isinstance(n.func, ast.Name)
                             and n.func.id == "Result"]:
                    if len(call.args) < 4 or any(k.arg in ("return_code", "status") for k in call.keywords):
                        src.fail("Result(...) construction with an unknown argument layout", call)
                    rc_node, st_node = call.args[1], call.args[2]
                    # status
                    if isinstance(st_node, ast.Name):
                        assigns = [n for n in ast.walk(fdef) if isinstance(n, ast.Assign) and len(n.targets) == 1
                                   and isinstance(n.targets[0], ast.Name) and n.targets[0].id == st_node.id]
                        if len(assigns) != 1:
                            src.fail(f"status variable {st_node.id} is not assigned exactly once", call)
                        st_node = assigns[0].value
                    p = attr_path(st_node)
                    if not (p and len(p) == 2 and p[0] == "JobCompletionStatus" and p[1] in STATUS_MEMBERS):
                        src.fail("Result(...): status is not a JobCompletionStatus member", call)
                    # return code
                    rc = None
                    if isinstance(rc_node, ast.Constant):
                        rc = const_int(src, rc_node)
                    elif isinstance(rc_node, ast.Attribute):
                        txt = ast.unparse(rc_node)
                        assigns = [n for n in ast.walk(fdef) if isinstance(n, ast.Assign) and len(n.targets) == 1
                                   and ast.unparse(n.targets[0]) == txt]
                        if len(assigns) == 1 and isinstance(assigns[0].value, ast.Constant):
                            rc = const_int(src, assigns[0].value)
                        # anything else: any return code (over-approximation: a harder obligation)
                    shapes.append((rel, fdef.name, rc, p[1]))
    if not shapes:
        raise_src = Src("jade/result.py")
        raise_src.fail("no Result(...) construction found in jade/")
    return shapes


def _resource_stats(ev):
    """RESOURCE_STATS = set((NAME, ...)) with module-level string constants"""
    v = ev.assign("RESOURCE_STATS", "EventsSummary")
    if not (isinstance(v, ast.Call) and isinstance(v.func, ast.Name) and v.func.id == "set" and len(v.args) == 1
            and isinstance(v.args[0], (ast.Tuple, ast.List))):
        if isinstance(v, ast.Set):
            elts = v.elts
        else:
            ev.fail("RESOURCE_STATS is not set((...)) / a set literal", v)
    else:
        elts = v.args[0].elts
    names = []
    for e in elts:
        if not isinstance(e, ast.Name):
            ev.fail("RESOURCE_STATS member is not a module constant", e)
        names.append(const_str(ev, ev.assign(e.id)))
    return sorted(names)


def _stats_init(rm):
    """self._summaries[<kind>][resource_type][stat_name] = <0.0 | sys.maxsize> in __init__"""
    f = rm.func("__init__", "ResourceMonitorAggregator")
    init = {}
    for n in ast.walk(f):
        if isinstance(n, ast.Assign) and len(n.targets) == 1 and isinstance(n.targets[0], ast.Subscript):
            t = ast.unparse(n.targets[0]).replace('"', "'")
            for kind in ("average", "maximum", "minimum", "sum"):
                if t == f"self._summaries['{kind}'][resource_type][stat_name]":
                    v = n.value
                    if isinstance(v, ast.Constant) and isinstance(v.value, (int, float)) and not isinstance(v.value, bool) \
                            and float(v.value).is_integer():
                        val = int(v.value)
                    elif attr_path(v) == ["sys", "maxsize"]:
                        val = sys.maxsize
                    else:
                        rm.fail(f"initial {kind}: expected an integer-valued literal or sys.maxsize", n)
                    if kind in init:
                        rm.fail(f"initial {kind} assigned twice", n)
                    init[kind] = val
    if sorted(init) != ["average", "maximum", "minimum", "sum"]:
        rm.fail(f"initial running summaries not found (got {sorted(init)})", f)
    return init


def gen_reports():
    en = Src("jade/enums.py")
    members = enum_members(en, "JobCompletionStatus")
    if [m for m, _ in members] != STATUS_MEMBERS or not all(isinstance(v, str) for _, v in members):
        en.fail(f"JobCompletionStatus members changed: {members}")
    if len({v for _, v in members}) != len(members):
        en.fail("JobCompletionStatus values are not distinct")
    rs = Src("jade/result.py")
    preds = [_predicate(rs, n) for n in ("is_successful", "is_failed", "is_canceled")]
    # Result.__new__ stores status.value for enum members
    new = rs.func("__new__", "Result")
    if not any(isinstance(n, ast.If) and ast.unparse(n) == "if isinstance(status, JobCompletionStatus):\n    status = status.value"
               for n in new.body):
        rs.fail("Result.__new__ no longer stores JobCompletionStatus.value as the status", new)

    js = Src("jade/jobs/job_submitter.py")
    fb = js.func("_build_results", "JobSubmitter")
    _, if0 = _first_if_in_for(js, fb, ("self._results",), "result")
    b_chain, b_else = _chain(js, if0, "result", _incr(js))
    ret = [n for n in _strip_doc(fb.body) if isinstance(n, ast.Return)]
    if len(ret) != 1 or not isinstance(ret[0].value, ast.Dict):
        js.fail("_build_results: expected one `return {...}`", fb)
    top = {const_str(js, k): v for k, v in zip(ret[0].value.keys, ret[0].value.values)}
    if sorted(top) != ["results", "summary"] or not isinstance(top["summary"], ast.Dict):
        js.fail("_build_results: expected keys results/summary", ret[0])
    if ast.unparse(top["results"]) != "serialize_results(self._results)":
        js.fail("_build_results: results is not serialize_results(self._results)", ret[0])
    summary = [(const_str(js, k), ast.unparse(v)) for k, v in zip(top["summary"].keys, top["summary"].values)]
    # local counter names are not part of the report: a counter is known by the summary key it is stored under
    var_key = {v: k for k, v in summary if v.isidentifier()}
    if len(var_key) != len([1 for _, v in summary if v.isidentifier()]):
        js.fail("_build_results: one counter stored under two summary keys", ret[0])

    def _by_key(chain, els, src_):
        for _, lab in chain + ([els] if els else []):
            if lab not in var_key:
                src_.fail(f"_build_results: counter {lab} is not stored in the summary", fb)
        return [(p, var_key[l]) for p, l in chain], (None if els is None else (els[0], var_key[els[1]]))
    b_chain, b_else = _by_key(b_chain, b_else, js)
    summary = [(k, k if v.isidentifier() else v) for k, v in summary]
    # write_results_summary stores the summary + missing jobs + rows
    fw = js.func("write_results_summary", "JobSubmitter")
    txt = ast.unparse(fw).replace('"', "'")
    for needle in ("results = self._build_results(missing_jobs)", "data['results_summary'] = results['summary']",
                   "data['missing_jobs'] = missing_jobs", "data['results'] = results['results']"):
        if needle not in txt:
            js.fail(f"write_results_summary: `{needle}` not found", fw)
    # _handle_completion: which jobs are missing
    fh = js.func("_handle_completion", "JobSubmitter")
    txt = ast.unparse(fh)
    for needle in ("if len(self._results) != self._config.get_num_jobs():",
                   "finished_jobs = {x.name for x in self._results}",
                   "all_jobs = {x.name for x in self._config.iter_jobs()}",
                   "missing_jobs = sorted(all_jobs.difference(finished_jobs))",
                   "missing_jobs = []"):
        if needle not in txt:
            js.fail(f"_handle_completion: `{needle}` not found", fh)

    fg = rs.func("get_results_by_type", "ResultsSummary")
    _, if1 = _first_if_in_for(rs, fg, ("self._results['results'].values()",), "result")
    g_chain, g_else = _chain(rs, if1, "result", _append(rs, "result"))
    gret = [n for n in _strip_doc(fg.body) if isinstance(n, ast.Return)]
    if len(gret) != 1 or not isinstance(gret[0].value, ast.Dict):
        rs.fail("get_results_by_type: expected one `return {...}`", fg)
    g_keys = [(const_str(rs, k), ast.unparse(v)) for k, v in zip(gret[0].value.keys, gret[0].value.values)]
    g_var_key = {v: k for k, v in g_keys}
    for _, lab in g_chain + ([g_else] if g_else else []):
        if lab not in g_var_key:
            rs.fail(f"get_results_by_type: list {lab} is not returned", fg)
    g_chain = [(p, g_var_key[l]) for p, l in g_chain]
    g_else = None if g_else is None else (g_else[0], g_var_key[g_else[1]])
    g_keys = [(k, k) for k, _ in g_keys]
    fsr = rs.func("show_results", "ResultsSummary")
    _, if2 = _first_if_in_for(rs, fsr, ("self._results['results'].values()",), "result")
    s_chain, s_else = _chain(rs, if2, "result", _incr(rs))
    # a counter of show_results is known by the label it is printed under: print(f"...Num successful: {num_successful}")
    s_var_label = {}
    for c in calls_in(fsr, "print"):
        if len(c.args) == 1 and isinstance(c.args[0], ast.JoinedStr) and len(c.args[0].values) == 2 \
                and isinstance(c.args[0].values[0], ast.Constant) and isinstance(c.args[0].values[1], ast.FormattedValue) \
                and isinstance(c.args[0].values[1].value, ast.Name):
            s_var_label[c.args[0].values[1].value.id] = c.args[0].values[0].value.strip().rstrip(":")
    for _, lab in s_chain + ([s_else] if s_else else []):
        if lab not in s_var_label:
            rs.fail(f"show_results: counter {lab} is not printed", fsr)
    s_chain = [(p, s_var_label[l]) for p, l in s_chain]
    s_else = None if s_else is None else (s_else[0], s_var_label[s_else[1]])

    shapes = _writer_shapes()
    ev = Src("jade/events.py")
    res_names = _resource_stats(ev)
    rm = Src("jade/resource_monitor.py")
    init = _stats_init(rm)

    b_rows, b_e = _chain_term(b_chain, b_else)
    g_rows, g_e = _chain_term(g_chain, g_else)
    s_rows, s_e = _chain_term(s_chain, s_else)
    text = HEADER % ("jade/enums.py, jade/result.py, jade/jobs/job_submitter.py, jade/events.py, "
                     "jade/resource_monitor.py, every Result(...) construction under jade/")
    text += "Open Scope bool_scope.\n"
    for m, v in members:
        text += f"Definition status_{m} : string := {cstr(v)}.\n"
    text += f"Definition status_vocabulary : list string := {clist(['status_' + m for m, _ in members])}.\n"
    text += "\n".join(preds) + "\n"
    shape_terms = [f"({'None' if rc is None else '(Some (%d)%%Z)' % rc}, status_{st})" for _, _, rc, st in shapes]
    text += f"""
(* JobSubmitter._build_results: if/elif chain (predicate, counter), else-branch (asserted predicate, counter) *)
Definition build_chain : list (string * string) := {b_rows}.
Definition build_else : option (string * string) := {b_e}.
Definition build_summary : list (string * string) := {clist([f"({cstr(k)}, {cstr(v)})" for k, v in summary])}.
(* ResultsSummary.get_results_by_type: chain (predicate, list), returned keys *)
Definition bytype_chain : list (string * string) := {g_rows}.
Definition bytype_else : option (string * string) := {g_e}.
Definition bytype_keys : list (string * string) := {clist([f"({cstr(k)}, {cstr(v)})" for k, v in g_keys])}.
(* ResultsSummary.show_results *)
Definition show_chain : list (string * string) := {s_rows}.
Definition show_else : option (string * string) := {s_e}.
(* rows JADE writes: (return code literal | None = any, status); from
   {"; ".join(f"{rel}::{fn}" for rel, fn, _, _ in shapes)} *)
Definition writer_shapes : list (option Z * string) := {clist(shape_terms)}.
(* EventsSummary.RESOURCE_STATS: names whose events go to Parquet and are dropped from the JSON view *)
Definition resource_stats : list string := {clist([cstr(n) for n in res_names])}.
(* ResourceMonitorAggregator.__init__: initial running summaries (sys.maxsize of this interpreter) *)
Definition stats_init_average : Z := ({init['average']})%Z.
Definition stats_init_maximum : Z := ({init['maximum']})%Z.
Definition stats_init_minimum : Z := ({init['minimum']})%Z.
Definition stats_init_sum : Z := ({init['sum']})%Z.
Definition sys_maxsize : Z := ({sys.maxsize})%Z.
"""
    return text


TARGETS = {"ReportsGen": gen_reports}
