"""Translator target Gen/ResultGen.v: the Result predicates (jade/result.py), the completion-status
vocabulary (jade/enums.py), the literal result records written on cancellation / completion
(HpcSubmitter._cancel_job, AsyncCliCommand.cancel/_complete) and the failure tests of the two cancel
loops (HpcSubmitter._update_completed_jobs, JobQueue._check_completions).  Fail closed."""
import ast

from harness.translate import Src, HEADER, attr_path, calls_in, const_int, cstr, enum_members, kwarg

STATUSES = ["FINISHED", "CANCELED", "MISSING"]


def _status_value(src, node, values):
    """JobCompletionStatus.X.value  or  JobCompletionStatus.X -> the Coq constant name"""
    p = attr_path(node)
    if p and len(p) == 3 and p[0] == "JobCompletionStatus" and p[2] == "value" and p[1] in values:
        return "status_" + p[1].lower()
    if p and len(p) == 2 and p[0] == "JobCompletionStatus" and p[1] in values:
        return "status_" + p[1].lower()
    src.fail(f"expected JobCompletionStatus.<member>[.value], got {ast.unparse(node)[:80]}", node)


_CMP = {ast.Eq: "Z.eqb", ast.NotEq: "(fun a b => negb (Z.eqb a b))", ast.Lt: "Z.ltb", ast.LtE: "Z.leb",
        ast.Gt: "Z.gtb", ast.GtE: "Z.geb"}


def _int_expr(src, node, rc_names):
    if isinstance(node, ast.Constant):
        return f"({const_int(src, node)})%Z"
    if isinstance(node, ast.UnaryOp) and isinstance(node.op, ast.USub) and isinstance(node.operand, ast.Constant):
        return f"(-{const_int(src, node.operand)})%Z"
    if ast.unparse(node) in rc_names:
        return "rc"
    src.fail(f"integer expression not understood: {ast.unparse(node)[:80]}", node)


def bool_expr(src, node, values, rc_names, st_names):
    """Python boolean expression over the return code / status -> Coq bool term over `rc` `st`."""
    if isinstance(node, ast.BoolOp):
        op = "&&" if isinstance(node.op, ast.And) else "||"
        return "(" + f" {op} ".join(bool_expr(src, v, values, rc_names, st_names) for v in node.values) + ")"
    if isinstance(node, ast.UnaryOp) and isinstance(node.op, ast.Not):
        return "(negb " + bool_expr(src, node.operand, values, rc_names, st_names) + ")"
    if isinstance(node, ast.Compare) and len(node.ops) == 1:
        left, right = node.left, node.comparators[0]
        lt, rt = ast.unparse(left), ast.unparse(right)
        if lt in st_names or rt in st_names:
            other = right if lt in st_names else left
            if not isinstance(node.ops[0], (ast.Eq, ast.NotEq)):
                src.fail("status compared with something other than == / !=", node)
            p = attr_path(other)
            if not (p and len(p) == 3 and p[2] == "value"):
                src.fail("status (a str) must be compared with JobCompletionStatus.<X>.value", node)
            t = f"(String.eqb st {_status_value(src, other, values)})"
            return t if isinstance(node.ops[0], ast.Eq) else f"(negb {t})"
        if type(node.ops[0]) in _CMP:
            return f"({_CMP[type(node.ops[0])]} {_int_expr(src, left, rc_names)} {_int_expr(src, right, rc_names)})"
    src.fail(f"boolean expression not understood: {ast.unparse(node)[:100]}", node)


def _single_return(src, fn):
    body = [n for n in fn.body if not (isinstance(n, ast.Expr) and isinstance(n.value, ast.Constant))]
    if len(body) != 1 or not isinstance(body[0], ast.Return) or body[0].value is None:
        src.fail(f"{fn.name}: expected a single `return <expr>`", fn)
    return body[0].value


def _result_call(src, fn, what):
    calls = calls_in(fn, "Result")
    if len(calls) != 1:
        src.fail(f"expected exactly one Result(...) in {what}", fn)
    c = calls[0]
    if len(c.args) < 4:
        src.fail(f"Result(...) in {what}: expected name, return_code, status, exec_time positional", c)
    return c


def _one_if_test(src, fn, predicate, what):
    tests = [n.test for n in ast.walk(fn) if isinstance(n, ast.If) and predicate(ast.unparse(n.test))]
    if len(tests) != 1:
        src.fail(f"expected exactly one `if <x>.return_code ...` in {what}, found {len(tests)}", fn)
    return tests[0]


def gen_result():
    en = Src("jade/enums.py")
    members = enum_members(en, "JobCompletionStatus")
    if [m for m, _ in members] != STATUSES:
        en.fail(f"JobCompletionStatus members changed: {members}")
    values = dict(members)
    if len(set(values.values())) != len(values) or not all(isinstance(v, str) for v in values.values()):
        en.fail("JobCompletionStatus values are not distinct strings")
    rs = Src("jade/result.py")
    # Result.__new__ turns an enum status into its value: `if isinstance(status, JobCompletionStatus): status = status.value`
    new = ast.unparse(rs.func("__new__", "Result"))
    if "if isinstance(status, JobCompletionStatus):\n        status = status.value" not in new:
        rs.fail("Result.__new__ no longer stores status.value for an enum status")
    fields = rs.cls("Result").bases
    if not (len(fields) == 1 and isinstance(fields[0], ast.Call) and ast.unparse(fields[0].func) == "namedtuple"
            and isinstance(fields[0].args[1], ast.Constant)
            and [x.strip() for x in fields[0].args[1].value.split(",")][:3] == ["name", "return_code", "status"]):
        rs.fail("Result is no longer namedtuple('Result', 'name, return_code, status, ...')")
    preds = {}
    for p in ("is_successful", "is_failed", "is_canceled"):
        e = _single_return(rs, rs.func(p, "Result"))
        preds[p] = bool_expr(rs, e, values, {"self.return_code"}, {"self.status"})
    # submitter-level cancel record
    hs = Src("jade/hpc/hpc_submitter.py")
    cj = hs.func("_cancel_job", "HpcSubmitter")
    c = _result_call(hs, cj, "HpcSubmitter._cancel_job")
    if ast.unparse(c.args[0]) != "job.name":
        hs.fail("_cancel_job: result is not for job.name", c)
    sub_rc = const_int(hs, c.args[1])
    sub_st = _status_value(hs, c.args[2], values)
    src_cj = ast.unparse(cj)
    for need in ("job.state = JobState.DONE", "job.blocked_by.clear()", "aggregator.append_result(result)", "return result"):
        if need not in src_cj:
            hs.fail(f"_cancel_job no longer contains `{need}`", cj)
    uc = hs.func("_update_completed_jobs", "HpcSubmitter")
    t = _one_if_test(hs, uc, lambda s: "return_code" in s, "_update_completed_jobs")
    sub_fail = bool_expr(hs, t, values, {"result.return_code"}, set())
    # node-level cancel record: self._return_code = <int>; Result(self._job.name, self._return_code, CANCELED, ...)
    ac = Src("jade/jobs/async_cli_command.py")
    cn = ac.func("cancel", "AsyncCliCommand")
    assigns = [n for n in ast.walk(cn) if isinstance(n, ast.Assign) and ast.unparse(n.targets[0]) == "self._return_code"]
    if len(assigns) != 1 or cn.body[0] is not assigns[0]:
        ac.fail("AsyncCliCommand.cancel: expected `self._return_code = <int>` as the first statement", cn)
    node_rc = const_int(ac, assigns[0].value)
    c2 = _result_call(ac, cn, "AsyncCliCommand.cancel")
    if ast.unparse(c2.args[0]) != "self._job.name" or ast.unparse(c2.args[1]) != "self._return_code":
        ac.fail("AsyncCliCommand.cancel: Result(self._job.name, self._return_code, ...) expected", c2)
    node_st = _status_value(ac, c2.args[2], values)
    if "self._is_complete = True" not in ast.unparse(cn):
        ac.fail("AsyncCliCommand.cancel no longer marks the job complete", cn)
    # completion record: status = JobCompletionStatus.FINISHED; Result(self._job.name, self._return_code, status, ...)
    cp = ac.func("_complete", "AsyncCliCommand")
    c3 = _result_call(ac, cp, "AsyncCliCommand._complete")
    if ast.unparse(c3.args[0]) != "self._job.name" or ast.unparse(c3.args[1]) != "self._return_code":
        ac.fail("AsyncCliCommand._complete: Result(self._job.name, self._return_code, ...) expected", c3)
    if cp.body[0] is None or ast.unparse(cp.body[0]) != "self._return_code = self._pipe.returncode":
        ac.fail("AsyncCliCommand._complete: first statement is not self._return_code = self._pipe.returncode", cp)
    if ast.unparse(c3.args[2]) == "status":
        sts = [n for n in ast.walk(cp) if isinstance(n, ast.Assign) and ast.unparse(n.targets[0]) == "status"]
        if len(sts) != 1:
            ac.fail("_complete: expected one assignment to status", cp)
        fin_st = _status_value(ac, sts[0].value, values)
    else:
        fin_st = _status_value(ac, c3.args[2], values)
    jqs = Src("jade/jobs/job_queue.py")
    cc = jqs.func("_check_completions", "JobQueue")
    t2 = _one_if_test(jqs, cc, lambda s: "return_code" in s, "JobQueue._check_completions")
    node_fail = bool_expr(jqs, t2, values, {"job.return_code"}, set())
    text = HEADER % "jade/result.py, jade/enums.py, jade/hpc/hpc_submitter.py, jade/jobs/async_cli_command.py, jade/jobs/job_queue.py"
    text += "Open Scope bool_scope.\n"
    for m, v in members:
        text += f"Definition status_{m.lower()} : string := {cstr(v)}.\n"
    text += f"""
(* jade/result.py: Result.is_successful / is_failed / is_canceled *)
Definition is_successful (rc : Z) (st : string) : bool := {preds['is_successful']}.
Definition is_failed (rc : Z) (st : string) : bool := {preds['is_failed']}.
Definition is_canceled (rc : Z) (st : string) : bool := {preds['is_canceled']}.
(* HpcSubmitter._cancel_job: Result(job.name, {sub_rc}, {sub_st}, ...) *)
Definition sub_cancel_rc : Z := ({sub_rc})%Z.
Definition sub_cancel_status : string := {sub_st}.
(* HpcSubmitter._update_completed_jobs: `if {ast.unparse(t)}: failed_jobs.add(...)` *)
Definition sub_is_failure (rc : Z) : bool := {sub_fail}.
(* AsyncCliCommand.cancel *)
Definition node_cancel_rc : Z := ({node_rc})%Z.
Definition node_cancel_status : string := {node_st}.
(* AsyncCliCommand._complete *)
Definition finish_status : string := {fin_st}.
(* JobQueue._check_completions: `if {ast.unparse(t2)}: failed_jobs.add(...)` *)
Definition node_is_failure (rc : Z) : bool := {node_fail}.
"""
    return text


TARGETS = {"ResultGen": gen_result}
