"""Translator targets for the SLURM boundary (Gen/SlurmGen.v, Gen/RunCommandGen.v)."""
import ast

from harness.translate import (Src, HEADER, calls_in, clist, const_int, const_str, cstr, enum_member, enum_members,
                               attr_path, fstring_template, kwarg)

# ---- targets ------------------------------------------------------------------------------------
HPC_STATUS = ["UNKNOWN", "NONE", "QUEUED", "RUNNING", "COMPLETE"]


def gen_slurm():
    common = Src("jade/hpc/common.py")
    members = [m for m, _ in enum_members(common, "HpcJobStatus")]
    if members != HPC_STATUS:
        common.fail(f"HpcJobStatus members changed: {members}")
    sm = Src("jade/hpc/slurm_manager.py")
    # _STATUSES
    d = sm.assign("_STATUSES", "SlurmManager")
    if not isinstance(d, ast.Dict):
        sm.fail("_STATUSES is not a dict literal", d)
    rows = []
    seen = set()
    for k, v in zip(d.keys, d.values):
        ks = const_str(sm, k)
        if ks in seen:
            sm.fail(f"duplicate key {ks} in _STATUSES", k)
        seen.add(ks)
        rows.append(f"({cstr(ks)}, {enum_member(sm, v, 'HpcJobStatus', HPC_STATUS)})")
    # default of the lookups in _get_statuses_from_output
    f = sm.func("_get_statuses_from_output", "SlurmManager")
    gets = [c for c in calls_in(f, "get") if attr_path(c.func.value) == ["SlurmManager", "_STATUSES"]]
    if len(gets) != 1 or len(gets[0].args) != 2:
        sm.fail("expected exactly one SlurmManager._STATUSES.get(status, default) in _get_statuses_from_output", f)
    default = enum_member(sm, gets[0].args[1], "HpcJobStatus", HPC_STATUS)
    # regex
    rx = sm.assign("_REGEX_SBATCH_OUTPUT", "SlurmManager")
    if not (isinstance(rx, ast.Call) and attr_path(rx.func) == ["re", "compile"] and len(rx.args) == 1 and not rx.keywords):
        sm.fail("_REGEX_SBATCH_OUTPUT is not re.compile(<literal>)", rx)
    pat = const_str(sm, rx.args[0])
    suffix = r"(\d+)"
    if not pat.endswith(suffix):
        sm.fail(f"sbatch regex {pat!r} is not <literal>(\\d+)", rx)
    prefix = pat[: -len(suffix)]
    if any(ch in r".^$*+?{}[]\|()" for ch in prefix) or prefix == "":
        sm.fail(f"sbatch regex prefix {prefix!r} contains metacharacters", rx)
    # submit(): run_command("sbatch {}".format(filename), output, num_retries=6, retry_delay_s=10); match.group(1)
    fs = sm.func("submit", "SlurmManager")
    rcs = calls_in(fs, "run_command")
    if len(rcs) != 1:
        sm.fail("expected one run_command call in SlurmManager.submit", fs)
    sub_retries = const_int(sm, kwarg(rcs[0], "num_retries")) if kwarg(rcs[0], "num_retries") is not None else 0
    if kwarg(rcs[0], "error_strings") is not None:
        sm.fail("SlurmManager.submit passes error_strings: not modelled", rcs[0])
    groups = [c for c in calls_in(fs, "group")]
    if len(groups) != 1 or const_int(sm, groups[0].args[0]) != 1:
        sm.fail("expected match.group(1) in submit", fs)
    searches = calls_in(fs, "search")
    if len(searches) != 1 or attr_path(searches[0].func.value) != ["self", "_REGEX_SBATCH_OUTPUT"]:
        sm.fail("expected self._REGEX_SBATCH_OUTPUT.search(stdout) in submit (search, not match/fullmatch)", fs)
    # check_statuses(): run_command(cmd, output, num_retries=6, retry_delay_s=10)
    fc = sm.func("check_statuses", "SlurmManager")
    rcs2 = calls_in(fc, "run_command")
    if len(rcs2) != 1:
        sm.fail("expected one run_command call in check_statuses", fc)
    st_retries = const_int(sm, kwarg(rcs2[0], "num_retries")) if kwarg(rcs2[0], "num_retries") is not None else 0
    st_errs = kwarg(rcs2[0], "error_strings")
    if st_errs is not None:
        sm.fail("check_statuses passes error_strings: not modelled", rcs2[0])
    # check_status(): errors list
    f1 = sm.func("check_status", "SlurmManager")
    rcs3 = calls_in(f1, "run_command")
    if len(rcs3) != 1:
        sm.fail("expected one run_command call in check_status", f1)
    st1_retries = const_int(sm, kwarg(rcs3[0], "num_retries")) if kwarg(rcs3[0], "num_retries") is not None else 0
    errs_node = kwarg(rcs3[0], "error_strings")
    errs = []
    if errs_node is not None:
        if not isinstance(errs_node, ast.Name):
            sm.fail("error_strings is not a local name", errs_node)
        found = None
        for n in ast.walk(f1):
            if isinstance(n, ast.Assign) and isinstance(n.targets[0], ast.Name) and n.targets[0].id == errs_node.id:
                found = n.value
        if not isinstance(found, ast.List):
            sm.fail("errors is not a list literal", f1)
        errs = [const_str(sm, e) for e in found.elts]
    # submission script text
    ft = sm.func("_create_submission_script_text", "SlurmManager")
    body = [n for n in ft.body if not (isinstance(n, ast.Expr) and isinstance(n.value, ast.Constant))]
    if len(body) != 5:
        sm.fail(f"_create_submission_script_text: expected 5 statements (lines=, for, append, append, return), got {len(body)}", ft)
    a0, loop, ap1, ap2, ret = body
    if not (isinstance(a0, ast.Assign) and isinstance(a0.value, ast.List) and a0.targets[0].id == "lines"):
        sm.fail("first statement is not lines = [...]", a0)
    allowed = {"self._config.hpc.account": "account", "name": "name", "self._config.hpc.walltime": "walltime",
               "path": "path", "script": "script"}
    header = [clist(fstring_template(sm, e, allowed)) for e in a0.value.elts]
    if not (isinstance(loop, ast.For) and isinstance(loop.iter, ast.Tuple) and isinstance(loop.target, ast.Name)
            and loop.target.id == "param"):
        sm.fail("expected `for param in (<tuple of names>)`", loop)
    params = [const_str(sm, e) for e in loop.iter.elts]
    if len(set(params)) != len(params):
        sm.fail("duplicate optional parameter", loop)
    lb = loop.body
    ok_loop = (
        len(lb) == 2 and isinstance(lb[0], ast.Assign)
        and ast.unparse(lb[0]) == "value = getattr(self._config.hpc, param, None)"
        and isinstance(lb[1], ast.If) and ast.unparse(lb[1].test) == "value is not None" and not lb[1].orelse
        and len(lb[1].body) == 1 and isinstance(lb[1].body[0], ast.Expr)
        and isinstance(lb[1].body[0].value, ast.Call) and ast.unparse(lb[1].body[0].value.func) == "lines.append"
    )
    if not ok_loop:
        sm.fail("optional-parameter loop has an unexpected shape", loop)
    opt_tpl = fstring_template(sm, lb[1].body[0].value.args[0], {"param": "param", "value": "value"})
    tails = []
    for ap in (ap1, ap2):
        if not (isinstance(ap, ast.Expr) and isinstance(ap.value, ast.Call) and ast.unparse(ap.value.func) == "lines.append"):
            sm.fail("expected lines.append(...)", ap)
        tails.append(clist(fstring_template(sm, ap.value.args[0], allowed)))
    if not (isinstance(ret, ast.Return) and ast.unparse(ret.value) == "lines"):
        sm.fail("expected return lines", ret)
    fcs = sm.func("create_submission_script", "SlurmManager")
    if '"\\n".join(text) + "\\n"' not in ast.unparse(fcs).replace("'", '"'):
        sm.fail("create_submission_script no longer writes '\\n'.join(text) + '\\n'", fcs)
    # the fields of SlurmConfig that are optional
    hm = Src("jade/models/hpc.py")
    fields = []
    for n in hm.cls("SlurmConfig").body:
        if isinstance(n, ast.AnnAssign) and isinstance(n.target, ast.Name):
            fields.append(n.target.id)
    for p in params:
        if p not in fields:
            sm.fail(f"optional script parameter {p} is not a SlurmConfig field {fields}")
    # AsyncHpcSubmitter.is_complete: status in (HpcJobStatus.COMPLETE, HpcJobStatus.NONE)
    hs = Src("jade/hpc/hpc_submitter.py")
    fi = hs.func("is_complete", "AsyncHpcSubmitter")
    fin = None
    for n in ast.walk(fi):
        if isinstance(n, ast.Assign) and ast.unparse(n.targets[0]) == "self._is_complete":
            v = n.value
            if not (isinstance(v, ast.Compare) and len(v.ops) == 1 and isinstance(v.ops[0], ast.In)
                    and ast.unparse(v.left) == "status" and isinstance(v.comparators[0], ast.Tuple)):
                hs.fail("self._is_complete = status in (<tuple>) expected", n)
            fin = [enum_member(hs, e, "HpcJobStatus", HPC_STATUS) for e in v.comparators[0].elts]
    if fin is None:
        hs.fail("assignment to self._is_complete not found", fi)
    cs = hs.func("check_status", "HpcStatusCollector")
    gets = calls_in(cs, "get")
    if len(gets) != 1 or ast.unparse(gets[0]) != "self._statuses.get(job_id, HpcJobStatus.NONE)":
        hs.fail("HpcStatusCollector.check_status: expected self._statuses.get(job_id, HpcJobStatus.NONE)", cs)
    absent = "NONE"
    text = HEADER % "jade/hpc/slurm_manager.py, jade/hpc/hpc_submitter.py, jade/hpc/common.py, jade/models/hpc.py"
    text += f"""
Definition statuses : list (string * hpc_status) :=
  {clist(rows, True)}.
Definition status_default : hpc_status := {default}.
Definition status_absent : hpc_status := {absent}.
Definition finished_statuses : list hpc_status := {clist(fin)}.
Definition sbatch_prefix : string := {cstr(prefix)}.
Definition submit_num_retries : nat := {sub_retries}.
Definition statuses_num_retries : nat := {st_retries}.
Definition status_num_retries : nat := {st1_retries}.
Definition status_error_strings : list string := {clist([cstr(e) for e in errs])}.
Definition script_header : list (list piece) :=
  {clist(header, True)}.
Definition script_optional_params : list string := {clist([cstr(p) for p in params])}.
Definition script_optional_line : list piece := {clist(opt_tpl)}.
Definition script_tail : list (list piece) :=
  {clist(tails, True)}.
"""
    return text


def gen_run_command():
    """Shape check of utils/run_command.py::run_command: the loop the hand model Retry.v follows."""
    rc = Src("jade/utils/run_command.py")
    f = rc.func("run_command")
    args = [a.arg for a in f.args.args]
    defaults = {a.arg: d for a, d in zip(f.args.args[-len(f.args.defaults):], f.args.defaults)}
    if args[:6] != ["cmd", "output", "cwd", "num_retries", "retry_delay_s", "error_strings"]:
        rc.fail(f"run_command signature changed: {args}", f)
    nr = const_int(rc, defaults["num_retries"])
    mt = None
    for n in ast.walk(f):
        if isinstance(n, ast.Assign) and ast.unparse(n.targets[0]) == "max_tries":
            mt = ast.unparse(n.value)
    if mt is None:
        rc.fail("max_tries assignment not found", f)
    text = HEADER % "jade/utils/run_command.py"
    text += f"""
Definition run_command_default_retries : nat := {nr}.
(* source text of the bound of the retry loop, kept for the record: max_tries = {mt} *)
Definition run_command_max_tries_is_retries_plus_one : bool := {"true" if mt == "num_retries + 1" else "false"}.
"""
    return text



TARGETS = {
    "SlurmGen": gen_slurm,
    "RunCommandGen": gen_run_command,
}
