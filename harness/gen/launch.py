"""Translator target for the launch path (Gen/LaunchGen.v, property C19).

Extracted, fail closed, from the current source:
  * GenericCommandExecution.generate_command: the ordered list of (flag, appended f-string template);
  * AsyncCliCommand.run: shlex.split of the command string, the environment assignments, the
    stdout / stderr file name templates, stdout=/stderr= of the Popen call;
  * AsyncCliCommand._complete / cancel: which values go into the Result that is appended;
  * result.py: the Result fields (= the columns of a row); enums.py: the status strings.
"""
import ast

from harness.translate import Src, HEADER, attr_path, calls_in, clist, const_str, cstr, enum_members, fstring_template, kwarg

FLAGS = ("append_job_name", "append_output_dir")
# expression text inside the f-strings -> field name known to Launch.v
APPEND_FIELDS = {
    "shlex.quote(job.name)": "quote_name",
    "job.name": "name",
    "shlex.quote(output_dir)": "quote_output_dir",
    "output_dir": "output_dir",
}


def _append_steps():
    src = Src("jade/extensions/generic_command/generic_command_execution.py")
    f = src.func("generate_command", "GenericCommandExecution")
    body = [n for n in f.body if not (isinstance(n, ast.Expr) and isinstance(n.value, ast.Constant))]
    if len(body) < 2 or ast.unparse(body[0]) != "cmd = job.command":
        src.fail("generate_command does not start with `cmd = job.command`", f)
    if not (isinstance(body[-1], ast.Return) and ast.unparse(body[-1].value) == "cmd"):
        src.fail("generate_command does not end with `return cmd`", body[-1])
    steps = []
    for st in body[1:-1]:
        if not (isinstance(st, ast.If) and not st.orelse):
            src.fail("unexpected statement in generate_command (expected `if job.<flag>:`)", st)
        p = attr_path(st.test)
        if not p or len(p) != 2 or p[0] != "job" or p[1] not in FLAGS:
            src.fail(f"unexpected condition {ast.unparse(st.test)!r} in generate_command", st)
        tpl = None
        for s in st.body:
            if isinstance(s, ast.Assign) and ast.unparse(s) == "output_dir = os.path.dirname(output)":
                continue
            if isinstance(s, ast.AugAssign) and isinstance(s.op, ast.Add) and ast.unparse(s.target) == "cmd" and tpl is None:
                tpl = s.value
                continue
            if (isinstance(s, ast.Assign) and ast.unparse(s.targets[0]) == "cmd" and isinstance(s.value, ast.BinOp)
                    and isinstance(s.value.op, ast.Add) and ast.unparse(s.value.left) == "cmd" and tpl is None):
                tpl = s.value.right
                continue
            src.fail(f"unexpected statement {ast.unparse(s)!r} under `if {ast.unparse(st.test)}`", s)
        if tpl is None:
            src.fail("no `cmd += ...` under the flag", st)
        pieces = fstring_template(src, tpl, APPEND_FIELDS)
        uses_dir = any("output_dir" in x for x in pieces)
        if uses_dir and not any(ast.unparse(s) == "output_dir = os.path.dirname(output)" for s in st.body):
            src.fail("output_dir is used but not computed as os.path.dirname(output)", st)
        steps.append(f"({cstr(p[1])}, {clist(pieces)})")
    return steps


def _one_assign(src, f, target_text, what):
    a = [n for n in ast.walk(f) if isinstance(n, ast.Assign) and len(n.targets) == 1 and ast.unparse(n.targets[0]) == target_text]
    if len(a) != 1:
        src.fail(f"expected exactly one assignment to {target_text} ({what})", f)
    return a[0]


def _run_facts():
    """Follows the data flow backwards from the Popen call, so local names may change."""
    src = Src("jade/jobs/async_cli_command.py")
    f = src.func("run", "AsyncCliCommand")
    pop = calls_in(f, "Popen")
    if len(pop) != 1 or len(pop[0].args) != 1 or not isinstance(pop[0].args[0], ast.Name):
        src.fail("expected one subprocess.Popen(<name>, ...)", f)
    kws = {k.arg: k.value for k in pop[0].keywords}
    if sorted(kws) != ["env", "stderr", "stdout"]:
        src.fail(f"Popen keywords are {sorted(kws)}, expected env, stderr, stdout", pop[0])
    # argv = shlex.split(self._cli_cmd, posix=...)
    cmd_assign = _one_assign(src, f, pop[0].args[0].id, "the argument vector given to Popen")
    call = cmd_assign.value
    if not (isinstance(call, ast.Call) and attr_path(call.func) == ["shlex", "split"] and len(call.args) == 1
            and ast.unparse(call.args[0]) == "self._cli_cmd"):
        src.fail(f"the command is not split with shlex.split(self._cli_cmd, ...): {ast.unparse(cmd_assign)!r}", cmd_assign)
    px = kwarg(call, "posix")
    if px is not None and ast.unparse(px) != "'win' not in sys.platform":
        src.fail(f"unexpected posix= argument {ast.unparse(px)!r}", call)
    if any(k.arg not in ("posix",) for k in call.keywords):
        src.fail("unexpected keyword of shlex.split", call)
    # env
    if not isinstance(kws["env"], ast.Name):
        src.fail("env= is not a local name", pop[0])
    envname = kws["env"].id
    base = _one_assign(src, f, envname, "the environment given to Popen")
    if ast.unparse(base.value) != "os.environ.copy()":
        src.fail("the environment is not os.environ.copy()", base)
    env_vals = {"str(self._output)": "output", "self.name": "name", "self._job.name": "name"}
    envs = []
    for n in ast.walk(f):
        if isinstance(n, ast.Assign) and isinstance(n.targets[0], ast.Subscript) and ast.unparse(n.targets[0].value) == envname:
            key = const_str(src, n.targets[0].slice)
            val = ast.unparse(n.value)
            if val not in env_vals:
                src.fail(f"environment variable {key} is set to {val!r}: not modelled", n)
            envs.append((key, env_vals[val]))
    if len(set(k for k, _ in envs)) != len(envs):
        src.fail("an environment variable is set twice", f)
    envs = [f"({cstr(k)}, {cstr(v)})" for k, v in sorted(envs, reverse=True)]   # order of assignment is immaterial
    # stdout / stderr -> self._stdxxx_fp = open(<name>, 'w'); <name> = self._output / JOBS_STDIO_DIR / f"..."
    names = {}
    for stream in ("stdout", "stderr"):
        fp = _one_assign(src, f, ast.unparse(kws[stream]), f"the {stream} file object")
        v = fp.value
        if not (isinstance(v, ast.Call) and ast.unparse(v.func) == "open" and len(v.args) == 2 and isinstance(v.args[0], ast.Name)
                and ast.unparse(v.args[1]) == "'w'" and not v.keywords):
            src.fail(f"{stream} is not open(<file name>, 'w')", fp)
        fn = _one_assign(src, f, v.args[0].id, f"the {stream} file name").value
        if not (isinstance(fn, ast.BinOp) and isinstance(fn.op, ast.Div) and ast.unparse(fn.left) == "self._output / JOBS_STDIO_DIR"):
            src.fail(f"the {stream} file name is not self._output / JOBS_STDIO_DIR / <name>", fn)
        names[stream + "_filename"] = clist(fstring_template(src, fn.right, {"self._job.name": "name", "self.name": "name"}))
    common = Src("jade/common.py")
    stdio_dir = const_str(common, common.assign("JOBS_STDIO_DIR"))
    return envs, names, stdio_dir


RESULT_VALUES = {
    "self._job.name": "job_name", "self.name": "job_name", "self._return_code": "return_code", "status": "status",
    "exec_time_s": "exec_time_s", "self._hpc_job_id": "hpc_job_id", "JobCompletionStatus.CANCELED": "CANCELED",
    "JobCompletionStatus.FINISHED": "FINISHED", "0.0": "zero",
}


def _result_call(src, f, fields):
    calls = calls_in(f, "Result")
    if len(calls) != 1:
        src.fail(f"expected exactly one Result(...) in {f.name}", f)
    c = calls[0]
    out = []
    for name, a in list(zip(fields, c.args)) + [(k.arg, k.value) for k in c.keywords]:
        txt = ast.unparse(a)
        if name not in fields or txt not in RESULT_VALUES:
            src.fail(f"Result argument {name}={txt!r} in {f.name}: not modelled", c)
        out.append((name, RESULT_VALUES[txt]))
    if len(set(n for n, _ in out)) != len(out):
        src.fail("Result argument given twice", c)
    return out


def _complete_facts(fields):
    src = Src("jade/jobs/async_cli_command.py")
    f = src.func("_complete", "AsyncCliCommand")
    rc = [n for n in ast.walk(f) if isinstance(n, ast.Assign) and ast.unparse(n.targets[0]) == "self._return_code"]
    if len(rc) != 1 or ast.unparse(rc[0].value) != "self._pipe.returncode":
        src.fail("_complete does not record self._return_code = self._pipe.returncode", f)
    st = [n for n in ast.walk(f) if isinstance(n, ast.Assign) and ast.unparse(n.targets[0]) == "status"]
    if len(st) != 1 or ast.unparse(st[0].value) != "JobCompletionStatus.FINISHED":
        src.fail("_complete does not set status = JobCompletionStatus.FINISHED", f)
    args = dict(_result_call(src, f, fields))
    if args.get("status") == "status":
        args["status"] = "FINISHED"
    ap = calls_in(f, "append")
    if len(ap) != 1 or ast.unparse(ap[0]) != "ResultsAggregator.append(self._output, result, batch_id=self._batch_id)":
        src.fail("_complete does not append the result to the batch's results file", f)
    fc = src.func("cancel", "AsyncCliCommand")
    cargs = dict(_result_call(src, fc, fields))
    rc2 = [n for n in ast.walk(fc) if isinstance(n, ast.Assign) and ast.unparse(n.targets[0]) == "self._return_code"]
    if len(rc2) != 1 or ast.unparse(rc2[0].value) != "1":
        src.fail("cancel does not set the return code 1", fc)
    return args, cargs


def gen_launch():
    res = Src("jade/result.py")
    cls = res.cls("Result")
    if not (len(cls.bases) == 1 and isinstance(cls.bases[0], ast.Call) and ast.unparse(cls.bases[0].func) == "namedtuple"
            and len(cls.bases[0].args) == 2):
        res.fail("Result is not class Result(namedtuple('Result', '<fields>'))", cls)
    fields = [x.strip() for x in const_str(res, cls.bases[0].args[1]).split(",")]
    enums = Src("jade/enums.py")
    status = dict(enum_members(enums, "JobCompletionStatus"))
    for k in ("FINISHED", "CANCELED"):
        if k not in status:
            enums.fail(f"JobCompletionStatus.{k} missing")
    agg = Src("jade/jobs/results_aggregator.py")
    gf = agg.func("_get_fields", "ResultsAggregator")
    if ast.unparse(gf.body[-1]) != "return Result._fields":
        agg.fail("_get_fields does not return Result._fields", gf)
    steps = _append_steps()
    envs, names, stdio_dir = _run_facts()
    cargs, xargs = _complete_facts(fields)

    def args_term(d):
        return clist([f"({cstr(k)}, {cstr(d[k])})" for k in fields if k in d])
    out = [HEADER % "jade/extensions/generic_command/generic_command_execution.py, jade/jobs/async_cli_command.py, "
           "jade/result.py, jade/enums.py, jade/common.py"]
    out.append("(* generate_command: in code order, (job flag, text appended when the flag is set) *)")
    out.append(f"Definition append_steps : list (string * list piece) :=\n  {clist(steps, per_line=True)}.")
    out.append("(* AsyncCliCommand.run: cmd = shlex.split(self._cli_cmd); env = os.environ.copy() plus: *)")
    out.append(f"Definition env_sets : list (string * string) := {clist(envs)}.")
    out.append(f"Definition stdio_dir : string := {cstr(stdio_dir)}.")
    out.append(f"Definition stdout_name : list piece := {names['stdout_filename']}.")
    out.append(f"Definition stderr_name : list piece := {names['stderr_filename']}.")
    out.append("(* Result fields = columns of a results row *)")
    out.append(f"Definition result_fields : list string := {clist([cstr(x) for x in fields])}.")
    out.append(f"Definition status_finished : string := {cstr(status['FINISHED'])}.")
    out.append(f"Definition status_canceled : string := {cstr(status['CANCELED'])}.")
    out.append("(* which value each field of the appended Result gets in _complete / cancel *)")
    out.append(f"Definition complete_args : list (string * string) := {args_term(cargs)}.")
    out.append(f"Definition cancel_args : list (string * string) := {args_term(xargs)}.")
    return "\n".join(out) + "\n"


TARGETS = {"LaunchGen": gen_launch}
