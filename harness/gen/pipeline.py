"""Translator target Gen/PipelineGen.v (property C15).

Reads the *arithmetic and the statement order* of the pipeline sequencing code out of /repo:
  jade/jobs/pipeline_manager.py   PipelineManager._submit_next_stage / submit_next_stage /
                                  create_config_from_files / create_config_from_commands
  jade/jobs/job_submitter.py      JobSubmitter._handle_completion (hand-over), run_submit_jobs
  jade/cli/pipeline.py            submit, submit-next-stage
Every function is matched against a statement template (fail closed); only the integer literals
(K_*) and local variable names (V_*) are free.  The literals become the constants the Gallina
model Pipeline.v is parameterised with, so an off-by-one in the code is an off-by-one in the
model, and the property theorems (proved for the standard constants) stop applying.
"""
import ast

from harness.translate import Src, HEADER, calls_in, kwarg, clist, cstr


# ---- template matching --------------------------------------------------------------------------
def _is_logging(stmt):
    """logger.<level>(...) statements and docstrings carry no control flow: ignored."""
    if isinstance(stmt, ast.Expr):
        v = stmt.value
        if isinstance(v, ast.Constant) and isinstance(v.value, str):
            return True
        if isinstance(v, ast.Call) and isinstance(v.func, ast.Attribute) and isinstance(v.func.value, ast.Name) \
                and v.func.value.id == "logger":
            return True
    return False


def _stmts(body):
    return [s for s in body if not _is_logging(s)]


def _int_const(node):
    if isinstance(node, ast.Constant) and isinstance(node.value, int) and not isinstance(node.value, bool):
        return node.value
    if isinstance(node, ast.UnaryOp) and isinstance(node.op, ast.USub):
        v = _int_const(node.operand)
        return None if v is None else -v
    return None


def unify(src, pat, node, binds, where):
    """Structural match of `node` against `pat`.  Pattern names: K_x = int literal, V_x = any local
    name (consistently), ANY = any expression (used for the messages of raise/assert)."""
    if isinstance(pat, ast.Name):
        if pat.id.startswith("K_"):
            v = _int_const(node)
            if v is None:
                src.fail(f"{where}: expected an int literal for {pat.id}, got `{ast.unparse(node)}`", node)
            if binds.setdefault(pat.id, v) != v:
                src.fail(f"{where}: {pat.id} bound to both {binds[pat.id]} and {v}", node)
            return
        if pat.id.startswith("V_"):
            if not isinstance(node, ast.Name):
                src.fail(f"{where}: expected a local name for {pat.id}, got `{ast.unparse(node)}`", node)
            if binds.setdefault(pat.id, node.id) != node.id:
                src.fail(f"{where}: local {pat.id} is both {binds[pat.id]} and {node.id}", node)
            return
        if pat.id == "ANY":
            return
    if type(pat) is not type(node):
        src.fail(f"{where}: expected `{ast.unparse(pat)}`, got `{ast.unparse(node)}`", node)
    for field in pat._fields:
        if field in ("ctx", "type_comment", "kind"):
            continue
        a, b = getattr(pat, field, None), getattr(node, field, None)
        if field in ("body", "orelse", "finalbody") and isinstance(a, list):
            a, b = _stmts(a), _stmts(b)
        if isinstance(a, list):
            if not isinstance(b, list) or len(a) != len(b):
                src.fail(f"{where}: expected `{ast.unparse(pat)[:160]}`, got `{ast.unparse(node)[:160]}` "
                         f"({field}: {len(a)} vs {len(b) if isinstance(b, list) else b} items)", node)
            for x, y in zip(a, b):
                unify(src, x, y, binds, where)
        elif isinstance(a, ast.AST):
            if not isinstance(b, ast.AST):
                src.fail(f"{where}: expected `{ast.unparse(pat)[:160]}`, got `{ast.unparse(node)[:160]}`", node)
            unify(src, a, b, binds, where)
        else:
            if a != b:
                src.fail(f"{where}: expected `{ast.unparse(pat)[:160]}`, got `{ast.unparse(node)[:160]}`", node)


def match_body(src, fn_node, template, where, binds=None):
    binds = {} if binds is None else binds
    pat = ast.parse(template).body
    got = _stmts(fn_node.body) if not isinstance(fn_node, list) else _stmts(fn_node)
    pat = _stmts(pat)
    if len(pat) != len(got):
        src.fail(f"{where}: expected {len(pat)} statements, found {len(got)}: "
                 f"{[ast.unparse(s).splitlines()[0][:60] for s in got]}",
                 fn_node if not isinstance(fn_node, list) else (fn_node[0] if fn_node else None))
    for p, g in zip(pat, got):
        unify(src, p, g, binds, where)
    return binds


# ---- templates ----------------------------------------------------------------------------------
T_SUBMIT_NEXT = '''
if return_code is None:
    assert stage_num == K_assert, ANY
else:
    if stage_num != self.stage_num + K_seq:
        raise InvalidParameter(ANY)
    self._config.stages[stage_num - K_rc_back].return_code = return_code
    self._config.stage_num += K_incr
if self._config.stage_num == len(self._config.stages) + K_done:
    self._config.is_complete = True
    self._serialize()
    return
self._serialize()
V_stage = self._config.stages[self.stage_num - K_cur_back]
os.environ["JADE_PIPELINE_STAGE_ID"] = str(self.stage_num)
if V_stage.auto_config_cmd is not None:
    self._run_auto_config(V_stage)
V_output = self.get_stage_output_path(self.path, self.stage_num)
V_config = create_config_from_file(V_stage.config_file)
if not V_config.submission_groups:
    V_config.assign_default_submission_group(V_stage.submitter_params)
V_ret = JobSubmitter.run_submit_jobs(V_config, V_output, pipeline_stage_num=self.stage_num)
if V_ret != 0:
    raise ExecutionError(ANY)
'''

T_WRAPPER = '''
os.environ["JADE_PIPELINE_OUTPUT_DIR"] = self._output
os.environ["JADE_PIPELINE_STATUS_FILE"] = self._config_file
try:
    self._submit_next_stage(stage_num, return_code=return_code)
finally:
    os.environ.pop("JADE_PIPELINE_OUTPUT_DIR")
    os.environ.pop("JADE_PIPELINE_STATUS_FILE")
    if "JADE_PIPELINE_STAGE_ID" in os.environ:
        os.environ.pop("JADE_PIPELINE_STAGE_ID")
'''

T_AUTO = '''
if os.path.exists(stage.config_file):
    os.remove(stage.config_file)
V_ret = run_command(stage.auto_config_cmd)
if V_ret != 0:
    raise ExecutionError(ANY)
if not os.path.exists(stage.config_file):
    raise ExecutionError(ANY)
V_final = self.get_stage_config_file_path(self._output, self.stage_num)
shutil.copyfile(stage.config_file, V_final)
stage.config_file = V_final
'''

T_HANDOVER = '''
V_dir = os.path.dirname(self._output)
V_next = cluster.config.pipeline_stage_num + K_hand
V_cmd = f"jade pipeline submit-next-stage {V_dir} --stage-num={V_next} --return-code={result.value}"
run_command(V_cmd)
'''

T_CREATE = '''
os.makedirs(output, exist_ok=True)
V_main = os.path.join(output, cls.CONFIG_FILENAME)
shutil.copyfile(config_file, V_main)
V_mgr = cls(V_main, output)
for V_s in V_mgr.stages:
    V_s.path = cls.get_stage_output_path(output, V_s.stage_num)
V_mgr._serialize()
return V_mgr
'''


def _config_creator(pm, name):
    """create_config_from_files / _from_commands: stage_num = i + K, PipelineConfig(stage_num=K)."""
    f = pm.func(name, "PipelineManager")
    loops = [n for n in _stmts(f.body) if isinstance(n, ast.For)]
    if len(loops) != 1:
        pm.fail(f"{name}: expected one for loop", f)
    loop = loops[0]
    if not (isinstance(loop.iter, ast.Call) and ast.unparse(loop.iter.func) == "enumerate" and len(loop.iter.args) == 1
            and not loop.iter.keywords and isinstance(loop.target, ast.Tuple) and len(loop.target.elts) == 2):
        pm.fail(f"{name}: expected `for i, x in enumerate(<list>)`", loop)
    ivar = loop.target.elts[0].id
    body = _stmts(loop.body)
    binds = {}
    if len(body) != 2:
        pm.fail(f"{name}: loop body has {len(body)} statements, expected 2", loop)
    unify(pm, ast.parse(f"stage_num = {ivar} + K_numbering").body[0], body[0], binds, name)
    app = body[1]
    if not (isinstance(app, ast.Expr) and isinstance(app.value, ast.Call) and ast.unparse(app.value.func) == "stages.append"
            and len(app.value.args) == 1 and isinstance(app.value.args[0], ast.Call)
            and ast.unparse(app.value.args[0].func) == "PipelineStage"):
        pm.fail(f"{name}: expected stages.append(PipelineStage(...))", app)
    st = app.value.args[0]
    sn = kwarg(st, "stage_num")
    if sn is None or ast.unparse(sn) != "stage_num":
        pm.fail(f"{name}: PipelineStage(stage_num=stage_num) expected", st)
    if kwarg(st, "return_code") is not None or kwarg(st, "path") is not None:
        pm.fail(f"{name}: PipelineStage created with a return_code/path", st)
    pcs = calls_in(f, "PipelineConfig")
    if len(pcs) != 1 or ast.unparse(kwarg(pcs[0], "stages") or ast.Constant(None)) != "stages" \
            or kwarg(pcs[0], "is_complete") is not None:
        pm.fail(f"{name}: expected one PipelineConfig(stages=stages, stage_num=<int>)", f)
    unify(pm, ast.parse("K_init").body[0].value, kwarg(pcs[0], "stage_num") or ast.Constant(None), binds, name)
    return binds["K_numbering"], binds["K_init"]


def _click_option(src, fn, flag):
    for d in fn.decorator_list:
        if isinstance(d, ast.Call) and ast.unparse(d.func) == "click.option" and d.args \
                and isinstance(d.args[0], ast.Constant) and d.args[0].value == flag:
            return d
    src.fail(f"{fn.name}: click option {flag} not found", fn)


def gen_pipeline():
    pm = Src("jade/jobs/pipeline_manager.py")
    b = match_body(pm, pm.func("_submit_next_stage", "PipelineManager"), T_SUBMIT_NEXT, "_submit_next_stage")
    match_body(pm, pm.func("submit_next_stage", "PipelineManager"), T_WRAPPER, "submit_next_stage")
    match_body(pm, pm.func("_run_auto_config", "PipelineManager"), T_AUTO, "_run_auto_config")
    match_body(pm, pm.func("create", "PipelineManager"), T_CREATE, "PipelineManager.create")
    # stage_num property reads the persisted field
    props = [n for n in pm.cls("PipelineManager").body if isinstance(n, ast.FunctionDef) and n.name == "stage_num"]
    if len(props) != 1 or [ast.unparse(s) for s in _stmts(props[0].body)] != ["return self._config.stage_num"]:
        pm.fail("PipelineManager.stage_num is no longer `return self._config.stage_num`")
    num_f, init_f = _config_creator(pm, "create_config_from_files")
    num_c, init_c = _config_creator(pm, "create_config_from_commands")

    # ---- hand-over in JobSubmitter._handle_completion
    js = Src("jade/jobs/job_submitter.py")
    hc = js.func("_handle_completion", "JobSubmitter")
    top = _stmts(hc.body)
    marks = {}

    def landmark(name, pred):
        idx = [i for i, s in enumerate(top) if pred(s)]
        inner = [n for n in ast.walk(hc) if isinstance(n, ast.stmt) and pred(n)]
        if len(idx) != 1 or len(inner) != 1:
            js.fail(f"_handle_completion: expected exactly one top-level `{name}` statement, found {len(idx)} "
                    f"(and {len(inner)} anywhere)", hc)
        marks[name] = idx[0]

    landmark("results_summary", lambda s: isinstance(s, ast.Expr) and isinstance(s.value, ast.Call)
             and ast.unparse(s.value.func) == "self.write_results_summary")
    landmark("teardown", lambda s: isinstance(s, ast.If) and ast.unparse(s.test) == "self._config.teardown_command is not None")
    landmark("mark_complete", lambda s: isinstance(s, ast.Expr) and ast.unparse(s.value) == "cluster.mark_complete()")
    landmark("submit_next_stage", lambda s: isinstance(s, ast.If)
             and ast.unparse(s.test) == "cluster.config.pipeline_stage_num is not None")
    hand = top[marks["submit_next_stage"]]
    if hand.orelse:
        js.fail("_handle_completion: the pipeline hand-over `if` has an else branch", hand)
    hb = match_body(js, hand.body, T_HANDOVER, "_handle_completion hand-over")
    # no other mention of the pipeline command / mark_complete anywhere else in the function
    others = [n for n in ast.walk(hc) if isinstance(n, ast.Constant) and isinstance(n.value, str) and "submit-next-stage" in n.value]
    if len(others) != 1:
        js.fail("_handle_completion: the submit-next-stage command text occurs %d times" % len(others), hc)
    if len(calls_in(hc, "mark_complete")) != 1:
        js.fail("_handle_completion: mark_complete is called %d times" % len(calls_in(hc, "mark_complete")), hc)
    rets = [s for s in top if isinstance(s, ast.Return)]
    if len(rets) != 1 or top[-1] is not rets[0] or ast.unparse(rets[0].value) != "result":
        js.fail("_handle_completion: expected a single final `return result`", hc)
    order = [k for k, _ in sorted(marks.items(), key=lambda kv: kv[1])]
    # run_submit_jobs hands pipeline_stage_num to Cluster.create unchanged
    rs = js.func("run_submit_jobs", "JobSubmitter")
    cc = [c for c in calls_in(rs, "create") if ast.unparse(c.func) == "Cluster.create"]
    if len(cc) != 1 or ast.unparse(kwarg(cc[0], "pipeline_stage_num") or ast.Constant(None)) != "pipeline_stage_num":
        js.fail("run_submit_jobs: expected Cluster.create(..., pipeline_stage_num=pipeline_stage_num)", rs)
    if "pipeline_stage_num" not in [a.arg for a in rs.args.args]:
        js.fail("run_submit_jobs has no pipeline_stage_num parameter", rs)
    cl = Src("jade/jobs/cluster.py")
    ccl = [c for c in calls_in(cl.func("create", "Cluster"), "ClusterConfig")]
    if len(ccl) != 1 or ast.unparse(kwarg(ccl[0], "pipeline_stage_num") or ast.Constant(None)) != "pipeline_stage_num":
        cl.fail("Cluster.create: expected ClusterConfig(..., pipeline_stage_num=pipeline_stage_num)")

    # ---- CLI
    cli = Src("jade/cli/pipeline.py")
    sub = cli.func("submit")
    calls = calls_in(sub, "submit_next_stage")
    creates = [c for c in calls_in(sub, "create") if ast.unparse(c.func) == "PipelineManager.create"]
    if len(calls) != 1 or len(calls[0].args) != 1 or calls[0].keywords or len(creates) != 1 \
            or ast.unparse(creates[0]) != "PipelineManager.create(config_file, output)":
        cli.fail("submit: expected PipelineManager.create(config_file, output) and one mgr.submit_next_stage(<int>)", sub)
    cli_first = _int_const(calls[0].args[0])
    if cli_first is None:
        cli.fail("submit: submit_next_stage argument is not an int literal", calls[0])
    guard = _stmts(sub.body)[0]
    gb = {}
    unify(cli, ast.parse('''
if os.path.exists(output):
    if force:
        shutil.rmtree(output)
    else:
        print(ANY, file=sys.stderr)
        sys.exit(K_exit)
''').body[0], guard, gb, "submit: existing output directory guard")
    if gb["K_exit"] == 0:
        cli.fail("submit: exits 0 when the output directory exists", guard)
    sns = cli.func("submit_next_stage")
    calls = calls_in(sns, "submit_next_stage")
    loads = [c for c in calls_in(sns, "load") if ast.unparse(c) == "PipelineManager.load(output)"]
    if len(calls) != 1 or len(loads) != 1 or ast.unparse(calls[0].args[0] if calls[0].args else ast.Constant(None)) != "stage_num" \
            or ast.unparse(kwarg(calls[0], "return_code") or ast.Constant(None)) != "return_code":
        cli.fail("submit-next-stage: expected PipelineManager.load(output).submit_next_stage(stage_num, return_code=return_code)", sns)
    rc_required = True
    for flag in ("--stage-num", "--return-code"):
        d = _click_option(cli, sns, flag)
        req, ty = kwarg(d, "required"), kwarg(d, "type")
        if not (isinstance(req, ast.Constant) and req.value is True and ty is not None and ast.unparse(ty) == "int"
                and kwarg(d, "default") is None):
            rc_required = False

    text = HEADER % "jade/jobs/pipeline_manager.py, jade/jobs/job_submitter.py, jade/cli/pipeline.py, jade/jobs/cluster.py"
    text += f"""
(* PipelineManager._submit_next_stage *)
Definition gen_assert_first : Z := ({b['K_assert']})%Z.     (* assert stage_num == . *)
Definition gen_seq_offset : Z := ({b['K_seq']})%Z.       (* stage_num != self.stage_num + . *)
Definition gen_rc_index_back : Z := ({b['K_rc_back']})%Z.    (* stages[stage_num - .].return_code = return_code *)
Definition gen_stage_incr : Z := ({b['K_incr']})%Z.       (* self._config.stage_num += . *)
Definition gen_done_offset : Z := ({b['K_done']})%Z.      (* stage_num == len(stages) + . *)
Definition gen_cur_index_back : Z := ({b['K_cur_back']})%Z.   (* stages[self.stage_num - .] *)
(* create_config_from_files / create_config_from_commands *)
Definition gen_numbering_files : Z := ({num_f})%Z.
Definition gen_numbering_commands : Z := ({num_c})%Z.
Definition gen_init_stage_files : Z := ({init_f})%Z.
Definition gen_init_stage_commands : Z := ({init_c})%Z.
(* jade pipeline submit / submit-next-stage *)
Definition gen_cli_first : Z := ({cli_first})%Z.        (* mgr.submit_next_stage(.) *)
Definition gen_cli_ints_required : bool := {'true' if rc_required else 'false'}.   (* --stage-num/--return-code required ints *)
(* JobSubmitter._handle_completion *)
Definition gen_hand_offset : Z := ({hb['K_hand']})%Z.      (* next_stage = cluster.config.pipeline_stage_num + . *)
Definition gen_handover_order : list string := {clist([cstr(o) for o in order])}.
"""
    return text


TARGETS = {"PipelineGen": gen_pipeline}
