"""Translator target Gen/ResultsFilesGen.v: the declarative parts of jade/jobs/results_aggregator.py
that the results-file model (ResultsFiles.v, Csv.v) is stated over: the field list of a result row
(jade/result.py::Result), the delimiter, the file names / glob pattern / lock suffix, and the shape
of the two places where text is produced (`_format_row` through csv.writer with an empty
lineterminator, the header through a plain join).  Fail closed."""
import ast

from harness.translate import Src, HEADER, calls_in, clist, const_str, cstr, kwarg, attr_path, fstring_template


def _names():
    """(fields, delimiter, processed name, results dir, node template pieces, glob pattern, lock suffix)"""
    res = Src("jade/result.py")
    cls = res.cls("Result")
    if len(cls.bases) != 1 or not (isinstance(cls.bases[0], ast.Call) and ast.unparse(cls.bases[0].func) == "namedtuple"):
        res.fail("Result is not class Result(namedtuple(...))", cls)
    nt = cls.bases[0]
    if len(nt.args) != 2 or const_str(res, nt.args[0]) != "Result":
        res.fail("namedtuple('Result', '<fields>') expected", nt)
    fields = [f.strip() for f in const_str(res, nt.args[1]).replace(",", " ").split()]
    if len(set(fields)) != len(fields) or not fields:
        res.fail(f"odd Result fields {fields}", nt)

    ra = Src("jade/jobs/results_aggregator.py")
    gf = ra.func("_get_fields", "ResultsAggregator")
    rets = [n for n in ast.walk(gf) if isinstance(n, ast.Return)]
    if len(rets) != 1 or ast.unparse(rets[0].value) != "Result._fields":
        ra.fail("_get_fields does not return Result._fields", gf)
    init = ra.func("__init__", "ResultsAggregator")
    args = [a.arg for a in init.args.args]
    if args != ["self", "filename", "timeout", "delimiter"]:
        ra.fail(f"ResultsAggregator.__init__ signature changed: {args}", init)
    delim = const_str(ra, init.args.defaults[-1])
    if len(delim) != 1:
        ra.fail(f"delimiter default {delim!r} is not one character", init)
    lock_assign = None
    for n in ast.walk(init):
        if isinstance(n, ast.Assign) and ast.unparse(n.targets[0]) == "self._lock_file":
            lock_assign = n.value
    if lock_assign is None or not (isinstance(lock_assign, ast.BinOp) and isinstance(lock_assign.op, ast.Div)
                                   and ast.unparse(lock_assign.left) == "self._filename.parent"
                                   and isinstance(lock_assign.right, ast.BinOp) and isinstance(lock_assign.right.op, ast.Add)
                                   and ast.unparse(lock_assign.right.left) == "self._filename.name"):
        ra.fail("self._lock_file is not self._filename.parent / (self._filename.name + <suffix>)", init)
    lock_suffix = const_str(ra, lock_assign.right.right)
    processed = const_str(ra, ra.assign("PROCESSED_RESULTS_FILENAME"))
    common = Src("jade/common.py")
    results_dir = const_str(common, common.assign("RESULTS_DIR"))
    # load / load_node_results: where the two kinds of file live
    ld = ra.func("load", "ResultsAggregator")
    if "Path(output_dir) / PROCESSED_RESULTS_FILENAME" not in ast.unparse(ld):
        ra.fail("load: expected Path(output_dir) / PROCESSED_RESULTS_FILENAME", ld)
    ln = ra.func("load_node_results", "ResultsAggregator")
    fs = [n for n in ast.walk(ln) if isinstance(n, ast.JoinedStr)]
    if len(fs) != 1 or "Path(output_dir) / RESULTS_DIR / f" not in ast.unparse(ln):
        ra.fail("load_node_results: expected Path(output_dir) / RESULTS_DIR / f'results_batch_{batch_id}.csv'", ln)
    tpl = fstring_template(ra, fs[0], {"batch_id": "batch_id"})
    gn = ra.func("_get_node_results_files", "ResultsAggregator")
    globs = calls_in(gn, "glob")
    if len(globs) != 1 or len(globs[0].args) != 1:
        ra.fail("_get_node_results_files: expected one .glob(<pattern>)", gn)
    pattern = const_str(ra, globs[0].args[0])
    if "self._filename.parent / RESULTS_DIR" not in ast.unparse(gn):
        ra.fail("_get_node_results_files no longer globs self._filename.parent / RESULTS_DIR", gn)
    # _format_row: csv.writer(buf, delimiter=self._delimiter, lineterminator="") over str(getattr(result, x)) for the fields
    fr = ra.func("_format_row", "ResultsAggregator")
    ws = calls_in(fr, "writer")
    if len(ws) != 1 or ast.unparse(ws[0].func) != "csv.writer":
        ra.fail("_format_row: expected one csv.writer(...)", fr)
    w = ws[0]
    kws = {k.arg: ast.unparse(k.value) for k in w.keywords}
    if kws != {"delimiter": "self._delimiter", "lineterminator": "''"}:
        ra.fail(f"_format_row: csv.writer keywords {kws} (model: delimiter=self._delimiter, lineterminator='')", w)
    rows = calls_in(fr, "writerow")
    if len(rows) != 1 or ast.unparse(rows[0].args[0]) != "[str(getattr(result, x)) for x in self._get_fields()]":
        ra.fail("_format_row: writerow([str(getattr(result, x)) for x in self._get_fields()]) expected", fr)
    # header: self._delimiter.join(self._get_fields()) then "\n" -- in _append_result and _create_files
    for fn in ("_append_result", "_create_files"):
        f = ra.func(fn, "ResultsAggregator")
        js = [c for c in calls_in(f, "join")]
        if len(js) != 1 or ast.unparse(js[0]) != "self._delimiter.join(self._get_fields())":
            ra.fail(f"{fn}: header is not self._delimiter.join(self._get_fields())", f)
    # reader: csv.DictReader(f_in, delimiter=self._delimiter)
    gr = ra.func("_get_results", "ResultsAggregator")
    drs = calls_in(gr, "DictReader")
    if len(drs) != 1 or {k.arg: ast.unparse(k.value) for k in drs[0].keywords} != {"delimiter": "self._delimiter"}:
        ra.fail("_get_results: csv.DictReader(f_in, delimiter=self._delimiter) expected", gr)
    return fields, delim, processed, results_dir, tpl, pattern, lock_suffix


def constants():
    """The same constants for the Python driver (file name <-> model file id)."""
    fields, delim, processed, results_dir, tpl, pattern, lock_suffix = _names()
    return {"fields": fields, "delimiter": delim, "processed": processed, "results_dir": results_dir,
            "glob": pattern, "lock_suffix": lock_suffix}


def gen_results_files():
    fields, delim, processed, results_dir, tpl, pattern, lock_suffix = _names()
    text = HEADER % "jade/jobs/results_aggregator.py, jade/result.py, jade/common.py"
    text += f"""
Definition result_fields : list string := {clist([cstr(f) for f in fields])}.
Definition results_delimiter : string := {cstr(delim)}.
Definition processed_results_filename : string := {cstr(processed)}.
Definition results_dir : string := {cstr(results_dir)}.
Definition node_results_template : list piece := {clist(tpl)}.
Definition node_results_glob : string := {cstr(pattern)}.
Definition lock_suffix : string := {cstr(lock_suffix)}.
"""
    return text


TARGETS = {"ResultsFilesGen": gen_results_files}
