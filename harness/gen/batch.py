"""Translator target Gen/BatchGen.v: the admission comparisons of batch construction - the time test and
the size test of _BatchJobs.try_append (jade/hpc/hpc_submitter.py) and the queue-full test of
JobQueue.is_full (jade/jobs/job_queue.py) - as Coq boolean functions the model Batch.v is written over.
Fail closed: every extractor checks the exact syntactic shape it knows.  Everything else of the batch code
is tied to the model by differential correspondence (harness/batchdrv.py), not by translation."""
import ast

from harness.translate import Src, HEADER

_ZCMP = {ast.Gt: "Z.gtb", ast.GtE: "Z.geb", ast.Lt: "Z.ltb", ast.LtE: "Z.leb"}
_NCMP = {ast.GtE: "(fun a b => N.leb b a)", ast.Gt: "(fun a b => N.ltb b a)", ast.LtE: "N.leb", ast.Lt: "N.ltb",
         ast.Eq: "N.eqb"}


def _u(node):
    return ast.unparse(node)


def _strip_doc(body):
    if body and isinstance(body[0], ast.Expr) and isinstance(body[0].value, ast.Constant) and isinstance(body[0].value.value, str):
        return body[1:]
    return body


def gen_batch():
    src = Src("jade/hpc/hpc_submitter.py")
    # ---- try_append ----------------------------------------------------------------------------
    ta = src.func("try_append", "_BatchJobs")
    cmps = [n for n in ast.walk(ta) if isinstance(n, ast.Compare)]
    tcmps = [c for c in cmps if "self._max_batch_time" in _u(c)]
    scmps = [c for c in cmps if "self._per_node_batch_size" in _u(c)]
    if len(cmps) != 2 or len(tcmps) != 1 or len(scmps) != 1:
        src.fail(f"try_append: expected exactly one time test and one size test, found {[_u(c) for c in cmps]}", ta)
    cmp_ = tcmps[0]
    if not (len(cmp_.ops) == 1 and type(cmp_.ops[0]) in _ZCMP
            and _u(cmp_.left) == "self._estimated_batch_time + timedelta(minutes=job.estimated_run_minutes)"
            and _u(cmp_.comparators[0]) == "self._max_batch_time"):
        src.fail(f"try_append: time admission test not understood: {_u(cmp_)[:120]}", cmp_)
    time_cmp = _ZCMP[type(cmp_.ops[0])]
    guards = [n for n in ast.walk(ta) if isinstance(n, ast.If) and any(c is cmp_ for c in ast.walk(n.test))]
    if len(guards) != 1 or not (isinstance(guards[0].test, ast.BoolOp) and isinstance(guards[0].test.op, ast.And)
                                and len(guards[0].test.values) == 2
                                and _u(guards[0].test.values[0]) == "self._time_based_batching"
                                and guards[0].test.values[1] is cmp_):
        src.fail("try_append: the time test is not guarded as `if self._time_based_batching and <cmp>:`", cmp_)
    if [_u(s) for s in guards[0].body] != ["self._is_ready_to_submit = True", "return False"] or guards[0].orelse:
        src.fail("try_append: rejection branch is not `ready = True; return False`", guards[0])
    sz = scmps[0]
    if not (len(sz.ops) == 1 and type(sz.ops[0]) in _NCMP and _u(sz.left) == "self.num_jobs"
            and _u(sz.comparators[0]) == "self._per_node_batch_size"):
        src.fail(f"try_append: size test not understood: {_u(sz)[:100]}", sz)
    size_cmp = _NCMP[type(sz.ops[0])]
    nj = src.func("num_jobs", "_BatchJobs")
    if [_u(s) for s in _strip_doc(nj.body)] != ["return len(self._jobs)"]:
        src.fail("_BatchJobs.num_jobs is not len(self._jobs)", nj)

    # ---- JobQueue.is_full ---------------------------------------------------------------------------
    q = Src("jade/jobs/job_queue.py")
    isf = q.func("is_full", "JobQueue")
    ret = _strip_doc(isf.body)
    if not (len(ret) == 1 and isinstance(ret[0], ast.Return) and isinstance(ret[0].value, ast.Compare)
            and len(ret[0].value.ops) == 1 and type(ret[0].value.ops[0]) in _NCMP
            and _u(ret[0].value.left) == "len(self._outstanding_jobs)" and _u(ret[0].value.comparators[0]) == "self._queue_depth"):
        q.fail("JobQueue.is_full is not `len(self._outstanding_jobs) <cmp> self._queue_depth`", isf)
    full_cmp = _NCMP[type(ret[0].value.ops[0])]

    out = [HEADER % "jade/hpc/hpc_submitter.py (_BatchJobs.try_append), jade/jobs/job_queue.py (JobQueue.is_full)"]
    out.append("Open Scope Z_scope.\n")
    out.append("(* try_append: `self._estimated_batch_time + timedelta(minutes=est) <op> self._max_batch_time`; all in seconds *)")
    out.append(f"Definition time_exceeded (batch_time est_seconds max_time : Z) : bool := {time_cmp} (batch_time + est_seconds) max_time.\n")
    out.append("(* try_append: `self.num_jobs <op> self._per_node_batch_size` after the append *)")
    out.append(f"Definition size_reached (num_jobs size : N) : bool := {size_cmp} num_jobs size.\n")
    out.append("(* JobQueue.is_full: `len(self._outstanding_jobs) <op> self._queue_depth` *)")
    out.append(f"Definition queue_full (outstanding depth : N) : bool := {full_cmp} outstanding depth.\n")
    return "\n".join(out)


TARGETS = {"BatchGen": gen_batch}
