"""Translator target Gen/RoundGen.v: the shape of one submitter round - the order of the protocol steps of
HpcSubmitter.run, the completion decision of HpcSubmitter._is_complete and the "is a status update needed"
test of HpcSubmitter._update_status (jade/hpc/hpc_submitter.py) - as Coq definitions the system model
System.v is written over.  Fail closed: every statement of run() must be one the extractor knows (a protocol
step or a listed neutral statement); an unknown statement, a missing step or a different decision formula is
a broken tie."""
import ast

from harness.translate import Src, HEADER


def _u(node):
    return ast.unparse(node)


def _strip_doc(body):
    if body and isinstance(body[0], ast.Expr) and isinstance(body[0].value, ast.Constant) and isinstance(body[0].value.value, str):
        return body[1:]
    return body


def bool_expr(src, node, names):
    """a Python boolean expression over known names -> Coq bool term (truthiness of the mapped operands)"""
    if isinstance(node, ast.BoolOp):
        op = " && " if isinstance(node.op, ast.And) else " || "
        return "(" + op.join(bool_expr(src, v, names) for v in node.values) + ")"
    if isinstance(node, ast.UnaryOp) and isinstance(node.op, ast.Not):
        return "(negb " + bool_expr(src, node.operand, names) + ")"
    t = _u(node)
    if t in names:
        return names[t]
    src.fail(f"boolean expression over an unknown operand: {t[:80]}", node)


# statements of run() that are not protocol steps (bookkeeping, logging); matched on their exact source text
_NEUTRAL_PREFIX = (
    "starting_batch_index = self._batch_index",
    "lock_file = Path(self._output) / self.LOCK_FILENAME",
    "hpc_submitters = [AsyncHpcSubmitter.create_from_id(self._hpc_mgr, self._status_collector, x) for x in self._cluster.iter_hpc_job_ids()]",
    "queue = JobQueue(self._max_nodes, existing_jobs=hpc_submitters, poll_interval=self._poll_interval)",
    "blocked_jobs = []",
    "submitted_jobs = []",
    "num_submissions = self._batch_index - starting_batch_index",
    "logger.info(",
    "hpc_job_ids = sorted([x.job_id for x in queue.outstanding_jobs])",
    "return is_complete",
)


def _classify(src, st):
    """-> list of step names for one statement of run()"""
    t = _u(st)
    if isinstance(st, ast.If) and _u(st.test) == "lock_file.exists()":
        if not (len(st.body) == 1 and isinstance(st.body[0], ast.Raise)) or st.orelse:
            src.fail("run: the submitter.lock check does not simply raise", st)
        return ["SMarkerCheck"]
    if t == "queue.process_queue()":
        return ["SPoll"]
    if t == "(completed_job_names, canceled_jobs) = self._update_completed_jobs()" or \
            t == "completed_job_names, canceled_jobs = self._update_completed_jobs()":
        return ["SCollect"]
    if t == "lock_file.touch()":
        return ["SMarkerTouch"]
    if isinstance(st, ast.If) and _u(st.test) == "not self._cluster.is_canceled()":
        # for group in groups: if not queue.is_full(): self._submit_batches(queue, group, blocked_jobs, submitted_jobs)
        if st.orelse or len(st.body) != 1 or not isinstance(st.body[0], ast.For):
            src.fail("run: the canceled gate does not guard exactly the loop over submission groups", st)
        loop = st.body[0]
        if _u(loop.iter) != "self._cluster.config.submission_groups" or loop.orelse or len(loop.body) != 1:
            src.fail("run: submission loop is not over self._cluster.config.submission_groups", loop)
        inner = loop.body[0]
        if not (isinstance(inner, ast.If) and _u(inner.test) == "not queue.is_full()" and not inner.orelse
                and [_u(x) for x in inner.body] == ["self._submit_batches(queue, group, blocked_jobs, submitted_jobs)"]):
            src.fail("run: loop body is not `if not queue.is_full(): self._submit_batches(...)`", inner)
        return ["SCancelGate", "SSubmit"]
    if t == "self._update_status(submitted_jobs, blocked_jobs, canceled_jobs, hpc_job_ids, completed_job_names)":
        return ["SUpdate"]
    if t == "is_complete = self._is_complete()":
        return ["SCheck"]
    if t == "os.remove(lock_file)":
        return ["SMarkerRemove"]
    if any(t.startswith(p) for p in _NEUTRAL_PREFIX):
        return []
    src.fail(f"run: statement not understood: {t[:100]}", st)


def gen_round():
    src = Src("jade/hpc/hpc_submitter.py")
    run = src.func("run", "HpcSubmitter")
    steps = []
    seen_try = False
    for st in _strip_doc(run.body):
        if isinstance(st, ast.Try):
            if seen_try:
                src.fail("run: more than one try block", st)
            seen_try = True
            if st.orelse or st.finalbody or len(st.handlers) != 1:
                src.fail("run: try block has else/finally or several handlers", st)
            h = st.handlers[0]
            if not (_u(h.type) == "Exception" and isinstance(h.body[-1], ast.Raise) and h.body[-1].exc is None):
                src.fail("run: the exception handler does not re-raise (the marker must stay on any error)", h)
            for x in h.body[:-1]:
                if not _u(x).startswith("logger."):
                    src.fail("run: the exception handler does more than log and re-raise", x)
            if "SMarkerTouch" not in steps:
                src.fail("run: the try block does not start after the marker was created", st)
            for inner in st.body:
                steps += _classify(src, inner)
        else:
            steps += _classify(src, st)
    want = {"SMarkerCheck", "SPoll", "SCollect", "SMarkerTouch", "SCancelGate", "SSubmit", "SUpdate", "SCheck", "SMarkerRemove"}
    if set(steps) != want or len(steps) != len(want):
        src.fail(f"run: protocol steps found {steps}, expected each of {sorted(want)} exactly once", run)

    # ---- _is_complete ------------------------------------------------------------------------------
    ic = src.func("_is_complete", "HpcSubmitter")
    b = _strip_doc(ic.body)
    ok = (len(b) == 3 and _u(b[0]) == "is_complete = self._cluster.are_all_jobs_complete()"
          and isinstance(b[1], ast.If) and not b[1].orelse and len(b[1].body) == 1 and isinstance(b[1].body[0], ast.If)
          and _u(b[1].body[0].test) == "self._hpc_mgr.hpc_type != HpcType.FAKE" and not b[1].body[0].orelse
          and [_u(x) for x in b[1].body[0].body if not _u(x).startswith("logger.")] == ["is_complete = True"]
          and _u(b[2]) == "return is_complete")
    if not ok:
        src.fail("_is_complete is not `is_complete = all complete; if <test>: (non-FAKE) is_complete = True; return`", ic)
    force_test = bool_expr(src, b[1].test, {"is_complete": "all_done", "self._cluster.job_status.hpc_job_ids": "(negb no_ids)"})

    # ---- _update_status ----------------------------------------------------------------------------
    us = src.func("_update_status", "HpcSubmitter")
    b = _strip_doc(us.body)
    ok = (len(b) == 2 and _u(b[0]) == "hpc_job_changes = self._cluster.job_status.hpc_job_ids != hpc_job_ids"
          and isinstance(b[1], ast.If) and not b[1].orelse
          and [_u(x) for x in b[1].body] == ["self._cluster.update_job_status(submitted_jobs, blocked_jobs, canceled_jobs, completed_job_names, hpc_job_ids, self._batch_index)"])
    if not ok:
        src.fail("_update_status is not `hpc_job_changes = ...; if <test>: self._cluster.update_job_status(...)`", us)
    upd_test = bool_expr(src, b[1].test, {"completed_job_names": "completed", "submitted_jobs": "submitted",
                                          "blocked_jobs": "blocked", "hpc_job_changes": "ids_changed"})

    out = [HEADER % "jade/hpc/hpc_submitter.py (HpcSubmitter.run, _is_complete, _update_status)"]
    out.append("(* the protocol steps of one submitter round, in the order HpcSubmitter.run performs them *)")
    out.append("Inductive round_step := SMarkerCheck | SPoll | SCollect | SMarkerTouch | SCancelGate | SSubmit | SUpdate | SCheck | SMarkerRemove.")
    out.append("Definition run_steps : list round_step := [" + "; ".join(steps) + "].\n")
    out.append("(* _is_complete (SLURM): every job complete, or forced when the status lists no HPC job id *)")
    out.append(f"Definition check_complete (all_done no_ids : bool) : bool := if {force_test} then true else all_done.\n")
    out.append("(* _update_status: the status files are rewritten iff one of the four is non-empty / true *)")
    out.append(f"Definition update_needed (completed submitted blocked ids_changed : bool) : bool :=\n  {upd_test}.\n")
    return "\n".join(out)


TARGETS = {"RoundGen": gen_round}
