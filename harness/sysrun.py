"""Layer B tie: impl traces from the virtual cluster -> Coq `event` lists -> accepted by System.step
(evaluated by coqc with vm_compute) + the property monitors of SystemMonitors.v on the same traces.

Also: independent Python monitors over the raw impl traces (the search for a concrete failing
input judges impl by what it really did, not through the model)."""
import json
import os
import re

from harness import core
from harness.core import cN, cZ, cbool, clist

IMPORTS = ("From Coq Require Import List ZArith NArith Bool.\n"
           "From Jade Require Import Base System SystemMonitors SystemFault.")


# ---------------------------------------------------------------------------------------------
# encoding
# ---------------------------------------------------------------------------------------------
class Enc:
    def __init__(self, sc):
        self.sc = sc
        self.job = {j["name"]: i for i, j in enumerate(sc["jobs"])}
        self.grp = {g["name"]: i for i, g in enumerate(sc["groups"])}
        self.moved = {}      # pid -> rows consolidated by the collection in progress

    def J(self, name):
        if name not in self.job:
            # a name the real code produced that is no job of the scenario: a number no job has (the acceptor and the
            # Python oracles judge it; the encoder must not be what fails)
            self.job[name] = 900000 + len(self.job)
        return cN(self.job[name])

    def scenario(self):
        from harness import jadeenv
        jobs = []
        for j in self.sc["jobs"]:
            jobs.append(f"{{| jc_deps := {clist([self.J(d) for d in j.get('deps', [])])}; jc_flag := {cbool(j.get('cancel', False))}; "
                        f"jc_group := {cN(self.grp[j['group']])}; jc_est := {cZ(j.get('est') or 0)}; jc_rc := {cZ(j.get('rc', 0))} |}}")
        groups = []
        for g in self.sc["groups"]:
            np_ = g.get("nproc")
            groups.append(f"{{| gc_size := {cN(g.get('size', 500))}; gc_time := {cbool(g.get('time', False))}; "
                          f"gc_limit := {cZ(jadeenv.group_limit_seconds(g))}; gc_try := {cbool(g.get('try', True))}; "
                          f"gc_nproc := {'None' if np_ is None else '(Some ' + cN(np_) + ')'} |}}")
        mn = self.sc.get("max_nodes")
        hk = self.sc.get("hooks") or {}
        return (f"{{| sc_jobs := {clist(jobs)}; sc_groups := {clist(groups)}; "
                f"sc_max_nodes := {'None' if mn is None else '(Some ' + cN(mn) + ')'}; sc_cpus := {cN(self.sc.get('node_cpus', 4))}; "
                f"sc_hooks := {{| hk_setup := {cbool(hk.get('setup'))}; hk_teardown := {cbool(hk.get('teardown'))}; "
                f"hk_node_setup := {cbool(hk.get('node_setup'))}; hk_node_teardown := {cbool(hk.get('node_teardown'))} |}} |}}")

    def row(self, name, rc, status):
        return f"{{| rw_job := {self.J(name)}; rw_rc := {cZ(rc)}; rw_cancel := {cbool(status == 'canceled')} |}}"

    def jobs_bl(self, jobs):
        return clist([f"({self.J(n)}, {clist([self.J(b) for b in bl])})" for n, bl in jobs])

    def snapshot(self, sn):
        stm = {"not_submitted": "NS", "submitted": "SUB", "done": "DONE"}
        jobs = clist([f"({self.J(n)}, ({stm[s]}, {clist([self.J(b) for b in bl])}))" for n, s, bl in sn["jobs"]])
        return (f"{{| sn_jobs := {jobs}; sn_ids := {clist([cN(int(i)) for i in sn['ids']])}; sn_index := {cN(sn['index'])}; "
                f"sn_submitted := {cN(sn['submitted'])}; sn_completed := {cN(sn['completed'])} |}}")

    def events(self, trace):
        """-> (list of Coq event terms, list of source indices into trace)"""
        out, src = [], []

        def add(i, t):
            out.append(t)
            src.append(i)
        # a flag set in memory whose own write failed is persisted by the process's later successful
        # demotion (the demotion serializes the same in-memory config)
        pending_flag = {}
        for i, ev in enumerate(trace):
            k, p = ev["k"], cN(ev["p"])
            if k == "create":
                add(i, f"ECreate {p}")
            elif k == "load":
                add(i, f"ELoad {p} {cbool(ev['try_promote'])} {cbool(ev['promoted'])} {cbool(ev['complete'])} {cbool(ev['canceled'])}")
            elif k == "demote":
                if ev["ok"]:
                    for flag in pending_flag.pop(ev["p"], []):
                        add(i, f"{flag} {p}")
                    add(i, f"EDemote {p}")
                elif ev.get("error") == "AssertionError":
                    add(i, f"EDemote {cN(999999)}")       # demote by a process that is not the submitter: never allowed
                else:
                    add(i, f"EKill [{p}]")                # the write failed: the role is never released (process dies)
            elif k == "round_begin":
                add(i, f"ERound {p}")
            elif k == "squeue":
                if ev["ok"]:
                    add(i, f"ESqueue {p} {clist([cN(int(x)) for x in ev['active']])}")
                else:
                    add(i, f"ESqueueFail {p}")
            elif k == "moved":
                self.moved.setdefault(p, []).extend(ev["rows"])
            elif k == "collect":
                got = self.moved.pop(p, [])
                if ev["ok"]:
                    add(i, f"ECollect {p} {clist([self.row(*r) for r in ev['rows']])}")
                elif got:
                    # the collection failed half way: the rows of the node files it had already consolidated are in
                    # processed_results.csv all the same
                    add(i, f"ECollect {p} {clist([self.row(*r) for r in got])}")
            elif k == "sub_cancel":
                add(i, f"ESubCancel {p} {self.J(ev['job'])}")
            elif k == "marker_touch":
                add(i, f"EMarkerTouch {p}")
            elif k == "marker_found":
                add(i, f"EMarkerFound {p}")
            elif k == "sbatch":
                g = ev["group"]
                gi = self.grp.get(g) if isinstance(g, str) else None
                np_ = (ev.get("run") or {}).get("nproc")
                add(i, f"ESbatch {p} {cN(ev['index'] if ev['index'] is not None else 0)} {cN(gi if gi is not None else 9999)} "
                       f"{self.jobs_bl(ev['jobs'])} {'None' if np_ is None else '(Some ' + cN(np_) + ')'} "
                       f"{'(Some ' + cN(int(ev['id'])) + ')' if ev['ok'] else 'None'}")
            elif k == "update_status":
                if ev["ok"]:
                    add(i, f"EUpdate {p} {self.snapshot(ev['snapshot'])}")
            elif k == "check_complete":
                if ev["result"] is not None:
                    add(i, f"ECheckComplete {p} {cbool(ev['result'])}")
            elif k == "marker_remove":
                add(i, f"EMarkerRemove {p}")
            elif k == "results_summary":
                if ev["ok"]:
                    add(i, f"ESummary {p} {clist([self.row(*r) for r in ev['results']])} {clist([self.J(m) for m in ev['missing']])}")
            elif k == "hook":
                h = {"setup": "HSetup", "teardown": "HTeardown", "node_setup": "HNodeSetup", "node_teardown": "HNodeTeardown"}[ev["which"]]
                nd = "(Some " + cN(int(ev["node"])) + ")" if ev["which"].startswith("node") else "None"
                add(i, f"EHook {p} {h} {nd}")
            elif k == "mark_complete":
                if ev["ok"]:
                    add(i, f"EMarkComplete {p}")
                elif ev.get("error") == "AssertionError":
                    add(i, f"EMarkComplete {cN(999999)}")   # completing a complete submission: never allowed
                else:
                    pending_flag.setdefault(ev["p"], []).append("EMarkComplete")   # persisted by the demotion, if that succeeds
            elif k == "mark_canceled":
                if ev.get("ok", True):
                    add(i, f"EMarkCanceled {p}")
                else:
                    pending_flag.setdefault(ev["p"], []).append("EMarkCanceled")
            elif k == "scancel":
                add(i, f"EScancel {p} {cN(int(ev['id']))}")
            elif k == "batch_start":
                add(i, f"EBatchStart {cN(int(ev['id']))}")
            elif k == "launch":
                add(i, f"ELaunch {cN(int(ev['node']))} {self.J(ev['job'])}")
            elif k == "append":
                if ev["ok"] and ev["batch"] is not None:
                    add(i, f"EAppend {cN(int(ev['node']))} {self.row(ev['job'], ev['rc'], ev['status'])}")
            elif k == "unblock":
                add(i, f"EUnblock {cN(int(ev['node']))} {self.J(ev['job'])} {self.J(ev['blocker'])}")
            elif k == "batch_end":
                add(i, f"EBatchEnd {cN(int(ev['id']))}")
            elif k == "kill":
                add(i, f"EKill {clist([cN(x) for x in ev['pids']])}")
        return out, src


def accept_traces(items, name="sys", timeout=900, shard=12):
    """items: list of (scenario, trace).  Returns per item a dict:
       {accepted: bool, reject_index: idx into the raw trace or None, monitors: {name: bool}, n_events}"""
    if not items:
        return []
    # the executable part of the system model (acceptor, monitors, fault_free: no proofs inside) must be runnable even
    # when a theorem of the property no longer checks - that is when a concrete failing input is wanted most
    core.build(["theories/SystemFault.vo"])
    encs = []
    for sc, tr in items:
        e = Enc(sc)
        evs, src = e.events(tr)
        encs.append((e.scenario(), evs, src))
    jobs = []
    for k in range(0, len(encs), shard):
        body = [IMPORTS, "Import ListNotations.", "Open Scope N_scope.", "Set Printing Depth 1000000.", "Set Printing Width 1000000."]
        for n, (scn, evs, src) in enumerate(encs[k:k + shard]):
            body.append(f"Definition sc{n} : scenario := {scn}.")
            body.append(f"Definition tr{n} : list event := [\n  " + ";\n  ".join(evs) + "].")
        body.append("Eval vm_compute in [" + "; ".join(f"verdict2 sc{n} tr{n}" for n in range(len(encs[k:k + shard]))) + "].")
        jobs.append((f"{name}_{k}", "\n".join(body) + "\n"))
    outs = core.coq_eval_many(jobs, timeout)
    res = []
    for o in outs:
        vals = core.eval_results(o)
        if len(vals) != 1:
            raise core.BuildError("unexpected coqc output for traces", o[-2000:])
        # each verdict prints as (option N, list bool, bool)
        for m in re.finditer(r"\((None|Some (\d+))\s*,\s*\[([^\]]*)\]\s*,\s*(true|false)\s*,\s*(None|Some (\d+))\s*,\s*(true|false)\)", vals[0]):
            rej = None if m.group(1) == "None" else int(m.group(2))
            mons = [x.strip() == "true" for x in m.group(3).split(";") if x.strip()]
            res.append((rej, mons, (m.group(4) == "true", None if m.group(5) == "None" else int(m.group(6)), m.group(7) == "true")))
    assert len(res) == len(encs), (len(res), len(encs))
    out = []
    for (rej, mons, (ff, ffi, static_ok)), (scn, evs, src) in zip(res, encs):
        out.append({"accepted": rej is None, "fault_free": ff, "static_hypotheses": static_ok, "first_fault": (evs[ffi] if ffi is not None and ffi < len(evs) else None),
                    "first_fault_index": (src[ffi] if ffi is not None and ffi < len(src) else None), "reject_event": rej, "reject_index": (src[rej] if rej is not None and rej < len(src) else None),
                    "reject_term": (evs[rej] if rej is not None and rej < len(evs) else None),
                    "monitors": dict(zip(MONITOR_NAMES, mons)), "n_events": len(evs)})
    return out


MONITOR_NAMES = ["c01_ok", "c02_ok", "c05_ok", "c06_ok", "c10_ok", "c14_ok", "c16_ok", "c06p_ok"]


# ---------------------------------------------------------------------------------------------
# scenario generation
# ---------------------------------------------------------------------------------------------
def gen_scenario(rng, max_jobs=8, hooks=None, cyclic=False, force=None):
    n = rng.randint(2, max_jobs)
    names = [f"j{i}" for i in range(n)]
    order = names[:]
    rng.shuffle(order)              # dependency order; listing order is `names`
    pos = {x: i for i, x in enumerate(order)}
    ngroups = rng.choice([1, 1, 2, 3])
    jobs = []
    pdep = rng.choice([0.15, 0.3, 0.5])
    for x in names:
        cands = [y for y in names if pos[y] < pos[x]]
        deps = [y for y in cands if rng.random() < pdep]
        jobs.append({"name": x, "deps": deps, "cancel": rng.random() < 0.5, "est": rng.randint(1, 5),
                     "group": f"g{rng.randrange(ngroups)}", "rc": (rng.choice([1, 2]) if rng.random() < 0.25 else 0)})
    if cyclic and n >= 2:
        a, b = rng.sample(names, 2)
        ja = next(j for j in jobs if j["name"] == a)
        jb = next(j for j in jobs if j["name"] == b)
        if b not in ja["deps"]:
            ja["deps"].append(b)
        if a not in jb["deps"]:
            jb["deps"].append(a)
    groups = []
    maxn = rng.choice([1, 2, 3, None])
    for g in range(ngroups):
        groups.append({"name": f"g{g}", "size": rng.randint(1, 4), "time": rng.random() < 0.4,
                       "wall_min": rng.choice([5, 6, 8, 10]), "wall_sec": rng.choice([0, 0, 0, 30, 45]), "nproc": rng.choice([1, 2, None]) ,
                       "try": rng.random() < 0.6})
        if groups[-1]["time"] and groups[-1]["nproc"] is None:
            groups[-1]["nproc"] = 1
    # boundary: in a time-batched group a job whose estimate is exactly the walltime (with one process per node it fills a batch alone)
    for g in groups:
        if g["time"] and rng.random() < 0.35:
            mine = [j for j in jobs if j["group"] == g["name"]]
            if mine:
                rng.choice(mine)["est"] = g["wall_min"]       # == walltime (the configuration check allows no more)
    hk = hooks if hooks is not None else {k: rng.random() < 0.3 for k in ("setup", "teardown", "node_setup", "node_teardown")}
    sc = {"jobs": jobs, "groups": groups, "max_nodes": maxn, "hooks": hk, "node_cpus": rng.choice([1, 2, 4])}
    if force:
        sc.update(force)
    return sc


def reference(sc):
    """C03's reference evaluation: name -> (rc, status) or None when the job can never run (cycle)"""
    by = {j["name"]: j for j in sc["jobs"]}
    out, visiting = {}, set()

    def ev(x):
        if x in out:
            return out[x]
        if x in visiting:
            return None
        visiting.add(x)
        j = by[x]
        rs = [ev(d) for d in j.get("deps", [])]
        visiting.discard(x)
        if any(r is None for r in rs):
            res = None
            if j.get("cancel") and any(r is not None and r[0] != 0 for r in rs):
                res = "maybe"     # canceled or missing: depends on whether the failed blocker's row is seen
        elif j.get("cancel") and any(r[0] != 0 for r in rs):
            res = (1, "canceled")
        else:
            res = (j.get("rc", 0), "finished")
        out[x] = res
        return res
    for x in by:
        ev(x)
    return out


STRATEGIES = ["random", "random", "nodes_first", "submitter_first", "sticky", "slow_finish", "env_first", "actors_first", "fail_first"]


# ---------------------------------------------------------------------------------------------
# Python monitors over a raw impl trace (independent of the Coq model)
# ---------------------------------------------------------------------------------------------
def py_monitors(sc, trace, final=None):
    """-> list of (property id, signature, message, event index)"""
    probs = []
    by = {j["name"]: j for j in sc["jobs"]}
    handed, indices, launched = {}, {}, {}
    rows = {}            # job -> (rc, status) of appended rows (node + submitter)
    rows_order = []
    canceled_at = None
    completes = []
    promoted = None      # pid holding the role
    active = set()
    maxn = sc.get("max_nodes")
    node_setup, node_teardown, node_launches, node_open = {}, {}, {}, {}
    setup_n = 0
    summary_seen = False
    teardown_since_summary = 0
    pending_rows = []
    collected = []
    unrerun_missing = set()
    second_attempt = False
    round_rows = {}      # pid -> names of the rows its current round consolidated
    failed_poll = set()  # pids whose current round had a failed squeue
    node_group = {}
    node_batch = {}
    for i, ev in enumerate(trace):
        k = ev["k"]
        if k == "create":
            promoted = ev["p"]
        elif k == "load":
            if ev["promoted"]:
                if promoted is not None:
                    probs.append(("C10", "two-submitters", f"pid {ev['p']} promoted while pid {promoted} holds the role", i))
                promoted = ev["p"]
        elif k == "demote":
            if ev["ok"]:
                if promoted != ev["p"]:
                    probs.append(("C10", "demote-by-non-holder", f"pid {ev['p']} cleared the role held by {promoted}", i))
                promoted = None
        elif k == "kill":
            pass
        elif k == "sbatch":
            if canceled_at is not None:
                probs.append(("C14", "sbatch-after-cancel", f"sbatch of batch {ev['index']} after the submission was canceled", i))
            if completes:
                probs.append(("C05", "sbatch-after-complete", f"sbatch of batch {ev['index']} after completion", i))
            if ev.get("commands", 1) != 1:
                for p_ in ("C18", "C01"):
                    probs.append((p_, "script-runs-several-commands", f"the submission script of batch {ev['index']} has {ev['commands']} command lines", i))
            if ev["index"] in indices:
                probs.append(("C01", "batch-index-reused", f"batch index {ev['index']} used twice", i))
            indices[ev["index"]] = i
            if ev["ok"] and isinstance(ev.get("group"), str):
                node_group[ev["id"]] = ev["group"]
                node_batch[ev["id"]] = ([n for n, _ in ev["jobs"]], ev["group"])
            for n, _ in ev["jobs"]:
                if n in rows and rows[n][1] == "canceled":
                    probs.append(("C01", "canceled-job-handed-to-hpc", f"job {n} was canceled (result recorded) and is now placed in batch {ev['index']}", i))
            if ev["ok"]:
                for n, _ in ev["jobs"]:
                    if n in handed:
                        probs.append(("C01", "job-in-two-batches", f"job {n} handed to the HPC in batches {handed[n]} and {ev['index']}", i))
                    handed[n] = ev["index"]
                if maxn is not None and len(ev["active"]) > maxn:
                    probs.append(("C06", "max-nodes-exceeded", f"{len(ev['active'])} batches active > max_nodes {maxn}", i))
            # C07 on what was really written
            names = [n for n, _ in ev["jobs"]]
            g = ev["group"] if isinstance(ev["group"], str) else None
            gc = next((x for x in sc["groups"] if x["name"] == g), None)
            if not names:
                probs.append(("C07", "empty-batch", "empty batch submitted", i))
            if gc is None:
                probs.append(("C07", "mixed-groups", f"batch {ev['index']} mixes groups {ev['group']}", i))
            else:
                from harness import jadeenv
                if gc.get("time"):
                    if 60 * sum(by[n].get("est") or 0 for n in names) > jadeenv.group_limit_seconds(gc):
                        probs.append(("C07", "time-limit", f"batch {ev['index']} exceeds walltime x processes", i))
                elif len(names) > gc.get("size", 500):
                    probs.append(("C07", "size-limit", f"batch {ev['index']} has {len(names)} jobs > {gc.get('size')}", i))
                for n, bl in ev["jobs"]:
                    if bl and (not gc.get("try", True) or not set(bl) <= set(names)):
                        probs.append(("C07", "blockers-not-closed", f"job {n} batched with unfinished blockers {bl}", i))
                    miss = [d for d in by[n].get("deps", []) if d not in bl and d not in rows]
                    if miss:
                        if unrerun_missing and set(miss) <= unrerun_missing:
                            # known finding: resubmit-jobs reran this job but not its blocker, which had no result (was
                            # missing and the missing jobs were deselected or lost again): the blocker is dropped
                            probs.append(("C02", "rerun-job-started-without-its-missing-blocker", f"after resubmit-jobs job {n} is handed to a node without its blocker(s) {miss}, which were missing and are not rerun", i))
                        else:
                            probs.append(("C02", "batched-before-blocker-outcome", f"job {n} handed to a node without blockers {miss} that have no outcome", i))
        elif k == "launch":
            n = ev["job"]
            if n in launched:
                probs.append(("C01", "job-started-twice", f"job {n} started twice", i))
            launched[n] = i
            have = set(ev.get("rows") or [])
            miss = [d for d in by[n].get("deps", []) if d not in have]
            if miss:
                if unrerun_missing and set(miss) <= unrerun_missing:
                    probs.append(("C02", "rerun-job-started-without-its-missing-blocker", f"after resubmit-jobs job {n} is started although its blocker(s) {miss} were missing and are not rerun", i))
                else:
                    probs.append(("C02", "started-before-blocker-outcome", f"job {n} started before {miss} had an outcome", i))
            nd = ev.get("node")
            if ev.get("live") is not None and nd in node_batch:
                bjobs, bgroup = node_batch[nd]
                gcb = next((x for x in sc["groups"] if x["name"] == bgroup), None)
                if gcb is not None:
                    workers = gcb.get("nproc") if gcb.get("nproc") is not None else sc.get("node_cpus", 4)
                    depth = min(len(bjobs), workers)
                    if ev["live"] > depth:
                        probs.append(("C06", "processes-exceed-limit", f"{ev['live']} job processes run on node {nd} but the batch's group {bgroup} allows {depth}", i))
            node_launches.setdefault(nd, []).append(i)
            if (sc.get("hooks") or {}).get("node_setup") and node_setup.get(nd, 0) != 1:
                probs.append(("C16", "node-setup-missing", f"job {n} started on node {nd} with {node_setup.get(nd, 0)} node setup runs", i))
            if node_teardown.get(nd, 0):
                probs.append(("C16", "launch-after-node-teardown", f"job {n} started after node teardown on {nd}", i))
            if by[n].get("cancel"):
                bad = [d for d in by[n].get("deps", []) if d in rows and rows[d][0] != 0]
                if bad:
                    probs.append(("C04", "flagged-job-started-after-failure", f"flagged job {n} started although {bad} failed", i))
        elif k == "append" and ev.get("ok") and ev.get("batch") is not None:
            n = ev["job"]
            if n in rows:
                probs.append(("C08", "second-row", f"second result row for job {n}", i))
            rows[n] = (ev["rc"], ev["status"])
            rows_order.append(n)
            if ev["status"] == "canceled":
                if not by[n].get("cancel"):
                    probs.append(("C04", "unflagged-canceled", f"job {n} canceled without the flag", i))
                if ev["rc"] == 0:
                    probs.append(("C04", "cancel-rc-zero", f"canceled job {n} has return code 0", i))
                if n in launched:
                    probs.append(("C04", "canceled-but-started", f"job {n} was started and later recorded as canceled", i))
                bad = [d for d in by[n].get("deps", []) if d in rows and d != n and rows[d][0] != 0]
                if not bad:
                    probs.append(("C04", "canceled-without-failed-blocker", f"job {n} canceled but no blocker failed", i))
            else:
                want_rc = by[n].get("rc2", by[n].get("rc", 0)) if second_attempt else by[n].get("rc", 0)
                if ev["rc"] != want_rc:
                    probs.append(("C19", "wrong-rc", f"job {n} recorded rc {ev['rc']} != {want_rc}", i))
            if ev.get("batch") is not None:
                pending_rows.append(n)
        elif k == "collect" and ev.get("ok"):
            round_rows.setdefault(ev["p"], []).extend(n for n, rc, stt in ev["rows"])
            for n, rc, stt in ev["rows"]:
                if n in collected:
                    probs.append(("C08", "row-reported-twice", f"row of {n} reported to two submitter rounds", i))
                collected.append(n)
                if n not in rows:
                    probs.append(("C08", "row-fabricated", f"collected a row of {n} that no node wrote", i))
        elif k == "prepare_resubmit" and ev.get("ok"):
            # a resubmission legitimately runs the selected jobs again: forget their first-phase history
            # jobs that had no result at the resubmission and are not rerun stay without outcome for good
            unrerun_missing = {j["name"] for j in sc["jobs"] if j["name"] not in rows and j["name"] not in ev["rerun"]}
            second_attempt = True
            for n in ev["rerun"]:
                launched.pop(n, None)
                handed.pop(n, None)
                rows.pop(n, None)
                while n in collected:
                    collected.remove(n)
            completes.clear()
            summary_seen = False
            teardown_since_summary = 0
        elif k == "mark_canceled":
            canceled_at = i
        elif k == "squeue" and not ev.get("ok", True):
            failed_poll.add(ev["p"])
        elif k in ("marker_touch", "update_status") and ev["p"] in failed_poll:
            # the scheduler could not be asked which batches are still active: the round must stop (the next one
            # proceeds normally), not go on as if every batch had ended
            failed_poll.discard(ev["p"])
            for p_ in ("C11", "C18", "C06"):
                probs.append((p_, "round-continued-after-failed-status-query", f"the round of pid {ev['p']} went on to {k} although its squeue call had failed", i))
        elif k == "round_begin":
            failed_poll.discard(ev["p"])
            round_rows[ev["p"]] = []
        elif k == "update_status" and ev.get("ok") and isinstance(ev.get("snapshot"), dict) and "jobs" in ev["snapshot"]:
            state = {j[0]: j[1] for j in ev["snapshot"]["jobs"]}
            lost = [n for n in round_rows.get(ev["p"], []) if state.get(n) != "done"]
            if lost:
                for p_ in ("C08", "C09", "C05"):
                    probs.append((p_, "collected-result-not-in-status", f"the round of pid {ev['p']} consolidated the results of {lost} but its status update leaves them {[state.get(n) for n in lost]}", i))
            round_rows[ev["p"]] = []
        elif k == "mark_complete":
            # a batch whose jobs all have results is only winding down (its own try-submit-jobs may be the one that
            # completes the submission); a batch that still has work must not be left behind by the completion
            busy = [b for b in (ev.get("active") or []) if b in node_batch and any(n not in rows for n in node_batch[b][0])]
            if ev["ok"] and busy and canceled_at is None:
                for p_ in ("C05", "C11", "C12", "C06", "C18"):
                    probs.append((p_, "completed-while-batches-active", f"the submission was marked complete while batches {busy} still had jobs without a result", i))
            if ev["ok"]:
                if completes:
                    probs.append(("C05", "completed-twice", "completion flag set twice", i))
                completes.append(i)
                if not summary_seen:
                    probs.append(("C05", "complete-before-summary", "completion flag set before the results summary was written", i))
                if (sc.get("hooks") or {}).get("teardown") and teardown_since_summary != 1:
                    probs.append(("C16", "teardown-count", f"teardown ran {teardown_since_summary} times before completion", i))
            elif ev.get("error") == "AssertionError":
                probs.append(("C05", "completed-twice", "mark_complete on a complete submission", i))
        elif k == "results_summary":
            summary_seen = True
            teardown_since_summary = 0
        elif k == "hook":
            w = ev["which"]
            if w == "setup":
                setup_n += 1
                if setup_n > 1:
                    probs.append(("C16", "setup-twice", "setup command ran twice", i))
                if indices or launched:
                    probs.append(("C16", "setup-late", "setup command ran after a batch was handed to the HPC", i))
                if ev["env"].get("JADE_RUNTIME_OUTPUT") is None:
                    probs.append(("C16", "hook-env", "setup without JADE_RUNTIME_OUTPUT", i))
            elif w == "teardown":
                teardown_since_summary += 1
                if not summary_seen:
                    probs.append(("C16", "teardown-early", "teardown before the results summary", i))
                if completes:
                    probs.append(("C16", "teardown-after-complete", "teardown after the completion flag", i))
                if ev["env"].get("JADE_RUNTIME_OUTPUT") is None:
                    probs.append(("C16", "hook-env", "teardown without JADE_RUNTIME_OUTPUT", i))
            elif w == "node_setup":
                nd = ev.get("node")
                node_setup[nd] = node_setup.get(nd, 0) + 1
                if node_setup[nd] > 1:
                    probs.append(("C16", "node-setup-twice", f"node setup ran twice on {nd}", i))
                if node_launches.get(nd):
                    probs.append(("C16", "node-setup-late", f"node setup after a job started on {nd}", i))
                if not ev["env"].get("JADE_RUNTIME_OUTPUT") or not ev["env"].get("JADE_SUBMISSION_GROUP"):
                    probs.append(("C16", "hook-env", "node setup without the documented environment", i))
                elif node_group.get(nd) is not None and ev["env"]["JADE_SUBMISSION_GROUP"] != node_group[nd]:
                    probs.append(("C16", "hook-env-group", f"node setup on {nd} got JADE_SUBMISSION_GROUP={ev['env']['JADE_SUBMISSION_GROUP']} but the batch belongs to group {node_group[nd]}", i))
            elif w == "node_teardown":
                nd = ev.get("node")
                node_teardown[nd] = node_teardown.get(nd, 0) + 1
                if node_teardown[nd] > 1:
                    probs.append(("C16", "node-teardown-twice", f"node teardown ran twice on {nd}", i))
                if not ev["env"].get("JADE_RUNTIME_OUTPUT") or not ev["env"].get("JADE_SUBMISSION_GROUP"):
                    probs.append(("C16", "hook-env", "node teardown without the documented environment", i))
                elif node_group.get(nd) is not None and ev["env"]["JADE_SUBMISSION_GROUP"] != node_group[nd]:
                    probs.append(("C16", "hook-env-group", f"node teardown on {nd} got JADE_SUBMISSION_GROUP={ev['env']['JADE_SUBMISSION_GROUP']} but the batch belongs to group {node_group[nd]}", i))
        elif k == "sub_cancel":
            n = ev["job"]
            if n in rows:
                probs.append(("C08", "second-row", f"second result row for job {n}", i))
            rows[n] = (1, "canceled")
            if not by[n].get("cancel"):
                probs.append(("C04", "unflagged-canceled", f"job {n} canceled by the submitter without the flag", i))
            if n in launched or n in handed:
                probs.append(("C04", "canceled-but-started", f"job {n} was handed to the HPC and later canceled by a submitter", i))
            bad = [d for d in by[n].get("deps", []) if d in rows and d != n and rows[d][0] != 0]
            if not bad:
                probs.append(("C04", "canceled-without-failed-blocker", f"job {n} canceled by a submitter but no blocker failed", i))
    # C16 / C05: a node teardown command that exits non-zero is logged; the node still ends its batch with the
    # try-submit-jobs round that collects its results
    if (sc.get("hooks_rc") or {}).get("node_teardown"):
        for i, ev in enumerate(trace):
            if ev["k"] == "hook" and ev.get("which") == "node_teardown":
                nd = ev.get("node")
                rest = trace[i + 1:]
                if any(e["k"] == "kill" for e in trace):
                    break
                if not any(e["k"] == "spawn_child" and e.get("node") == nd and e.get("ckind") == "try" for e in rest):
                    for p_ in ("C16", "C05"):
                        probs.append((p_, "node-teardown-failure-stops-the-node", f"node {nd}: after its teardown command exited non-zero the node did not run its try-submit-jobs round", i))
    return probs


# ---------------------------------------------------------------------------------------------
# running one scenario under a plan (user commands, faults) in the virtual cluster
# ---------------------------------------------------------------------------------------------
def _alive(vc):
    return [a for a in vc.actors if not a.done and not a.killed]


def apply_action(vc, act, rng):
    """-> label of what was done (or None)"""
    do = act["do"]
    if do == "cancel":
        vc.cancel(complete=act.get("complete", True))
        return "cancel"
    if do == "strategy":
        vc.strategy = act["value"]
        return "strategy:" + act["value"]
    if do == "hold":
        # hold the process that emitted the triggering event back for a while: the others run, running jobs end
        vc.strategy = "gap_hunter"
        vc.gap_hold = [act.get("_pid"), act.get("steps", 30)]
        return "hold:%s" % act.get("_pid")
    if do == "try":
        vc.try_submit(host=act.get("host", "login1"))
        if act.get("then_strategy"):
            vc.strategy = act["then_strategy"]
        return "try"
    if do == "resubmit":
        vc.resubmit(**act.get("flags", {}))
        return "resubmit"
    if do == "kill":
        sel = act.get("who", "any")
        cands = _alive(vc)
        if sel == "event_actor":
            cands = [a for a in cands if any(p.pid == act.get("_pid") for p in a.stack)]
        if sel == "node":
            cands = [a for a in cands if a.stack[0].kind == "node"]
        elif sel == "submitter":
            cands = [a for a in cands if getattr(a.proc, "promoted", False) or a.stack[0].kind in ("login", "user")]
        elif sel == "holder":
            cands = [a for a in cands if any(getattr(p, "promoted", False) for p in a.stack)]
        if not cands:
            return None
        a = cands[rng.randrange(len(cands))]
        vc.kill_actor(a)
        if a.stack[0].kind == "node" and a.stack[0].batch in vc.hpc:
            vc.hpc[a.stack[0].batch]["state"] = "GONE"
            vc.trace.append({"k": "batch_end", "p": 0, "id": a.stack[0].batch, "why": "killed"})
        return "kill:" + a.label
    if do == "interrupt":
        # Ctrl-C on the process that emitted the triggering event (a submitter on a login node)
        cands = [a for a in _alive(vc) if any(p.pid == act.get("_pid") for p in a.stack) and a.stack[0].kind != "node"]
        if not cands:
            return None
        cands[0].interrupt = True
        return "interrupt:" + cands[0].label
    if do == "timeout":
        ids = vc.active_ids()
        if not ids:
            return None
        i = ids[rng.randrange(len(ids))]
        vc.kill_batch(i, "timeout")
        vc.hpc[i]["state"] = "GONE"
        vc.trace.append({"k": "batch_end", "p": 0, "id": i, "why": "timeout"})
        return "timeout:" + i
    if do == "squeuefail":
        vc.squeue_failures += 1
        return "squeuefail"
    if do == "locktimeout" and act.get("who") == "event_actor":
        vc.pending_lock_timeout.add(act.get("_pid"))
        return "locktimeout:pid%s" % act.get("_pid")
    if do == "suspend":
        ids = [i for i, b in vc.hpc.items() if b["state"] == "RUNNING"]
        if not ids:
            return None
        i = ids[rng.randrange(len(ids))]
        vc.hpc[i]["state"] = "SUSPENDED"
        # what squeue prints for the held batch: a state jade does not map (suspended, stopped) or one after which SLURM
        # may put the batch back into the queue (preempted, node failure with JobRequeue); the batch goes on later
        vc.hpc[i]["shown"] = act.get("shown") or rng.choice(["SUSPENDED", "SUSPENDED", "STOPPED", "PREEMPTED", "NODE_FAIL", "REQUEUED"])
        vc.trace.append({"k": "batch_suspended", "p": 0, "id": i, "shown": vc.hpc[i]["shown"]})
        return "suspend:" + i
    if do == "resume":
        for i, b in vc.hpc.items():
            if b["state"] == "SUSPENDED":
                b["state"] = "RUNNING"
                b.pop("shown", None)
                vc.trace.append({"k": "batch_resumed", "p": 0, "id": i})
        return "resume"
    if do == "locktimeout":
        cands = [a for a in _alive(vc) if a.waiting_lock]
        if not cands:
            return None
        vc.pending_lock_timeout.add(cands[0].proc.pid)
        return "locktimeout:" + cands[0].label
    raise ValueError(do)


def run_plan(sc, seed, plan=None):
    """-> dict(trace, final, status, stuck, excs, recoveries, choices, applied)"""
    import random as _r
    from harness import vcluster
    plan = plan or {}
    rng = _r.Random(seed * 7919 + 13)
    sc = dict(sc)
    if plan.get("sbatch_fail"):
        sc["sbatch_fail"] = plan["sbatch_fail"]
    faults = {}
    if plan.get("write_error"):
        faults["write_error"] = tuple(plan["write_error"])
    if plan.get("finish_order"):
        faults["finish_order"] = list(plan["finish_order"])
    if plan.get("scan_error"):
        faults["scan_error"] = plan["scan_error"]
    if plan.get("launch_error"):
        faults["launch_error"] = plan["launch_error"]
    vc = vcluster.VirtualCluster(sc, seed=seed, strategy=plan.get("strategy", "random"), schedule=plan.get("schedule"),
                                 break_stale=bool(plan.get("break_stale")), faults=faults)
    applied = []
    try:
        vc.submit(local=bool(plan.get("local")))
        # user commands and faults only make sense once the submission exists on disk
        vc.run(until=lambda: vc.trace and any(e["k"] == "create" for e in vc.trace[-12:]))
        for act in sorted(plan.get("actions", []), key=lambda a: a.get("at", 0)):
            if act.get("when"):
                w = act["when"]
                n0 = len(vc.trace)

                def hit():
                    cnt = 0
                    for ev in vc.trace[n0:]:
                        if ev["k"] == w["k"] and str(ev.get(w.get("field", "lock"), "")).startswith(w.get("lock_startswith", w.get("startswith", ""))) \
                                and (w.get("node") is None or (ev.get("node") is not None) == w["node"]):
                            cnt += 1
                            if cnt >= w.get("n", 1):
                                act["_pid"] = ev["p"]
                                return True
                    return False
                vc.run(until=hit)
            else:
                vc.run(until=lambda: vc.steps >= act["at"])
            lab = apply_action(vc, act, rng)
            applied.append(lab)
            vc.trace.append({"k": "action", "p": 0, "do": act["do"], "label": lab})
        vc.run()
        if any(b["state"] == "SUSPENDED" for b in vc.hpc.values()):      # never leave a batch suspended forever
            apply_action(vc, {"do": "resume"}, rng)
            vc.run()
        def recover_loop():
            rec = 0
            idle = 0
            while rec < plan.get("recover", 14):
                st = vc.status()
                if st.get("complete") or "error" in st:
                    break
                if _alive(vc):
                    break
                vc.trace.append({"k": "quiescent", "p": 0, "snapshot": st, "active": vc.active_ids()})
                n0 = len(vc.trace)
                vc.try_submit()
                vc.run()
                rec += 1
                # a recovery round that changes nothing will not change anything next time either
                if not any(e["k"] in ("sbatch", "mark_complete", "update_status") for e in vc.trace[n0:]):
                    idle += 1
                    if idle >= 2:
                        break
                else:
                    idle = 0
            return rec
        rec = recover_loop()
        if plan.get("then_resubmit") is not None and vc.status().get("complete") and not _alive(vc):
            # second phase: `jade resubmit-jobs` on the completed submission, then run to completion again.
            # Resubmission is outside the Coq system model: the acceptor judges the trace up to this marker,
            # the Python monitors judge all of it.
            vc.trace.append({"k": "phase2", "p": 0, "flags": plan["then_resubmit"]})
            for j in sc["jobs"]:
                if "rc2" in j:              # a command whose second attempt ends differently
                    vc.rc[j["name"]] = j["rc2"]
            vc.resubmit(**plan["then_resubmit"])
            vc.run()
            rec += recover_loop()
        return {"trace": vc.trace, "final": vc.final_results(), "status": vc.status(), "stuck": [a.label for a in _alive(vc)],
                "excs": [(a.label, type(a.exc).__name__, str(a.exc)[:200]) for a in vc.actors if a.exc is not None],
                "recoveries": rec, "choices": list(vc.choices_made), "applied": applied, "fired": list(vc.fired),
                "launches": list(vc.launches), "disk_rows": vc.row_names_on_disk()}
    finally:
        vc.close()
