"""Drivers for C04 (failure cancellation): real HpcSubmitter._update_completed_jobs on a real Cluster +
real ResultsAggregator files, real JobQueue._check_completions over real AsyncCliCommand objects (only
subprocess.Popen is scripted), and whole multi-round submissions (real HpcSubmitter.run rounds + real
JobQueue.run_jobs on every batch) -- observed and turned into Coq terms for Cancel.v."""
import os
import shutil
import tempfile
import types

from harness import jadeenv
from harness.core import cN, cZ, cbool, clist, cstr

IMPORTS = ("From Coq Require Import String List ZArith NArith Bool.\nFrom Jade Require Import Base Cancel.\n"
           "From Jade.Gen Require Import ResultGen.")
NJ = 10
JOBNAMES = [f"j{i}" for i in range(1, NJ + 1)]
IDX = {n: i + 1 for i, n in enumerate(JOBNAMES)}
IDX["ghost"] = 99          # a name that is not a job of the configuration
STATE_TERM = {"not_submitted": "NOT_SUBMITTED", "submitted": "SUBMITTED", "done": "DONE"}
RCS = [0, 0, 0, 1, 2, -9, 137]


def nlist(names):
    return clist([cN(IDX[x]) for x in names])


def row_term(r):
    return f"{{| r_name := {cN(IDX[r[0]])}; r_rc := {cZ(r[1])}; r_status := {cstr(r[2])} |}}"


def cjob_term(j):
    return (f"{{| c_name := {cN(IDX[j['name']])}; c_blocked := {nlist(sorted(j['blocked'], key=lambda x: IDX[x]))}; "
            f"c_flag := {cbool(j['flag'])}; c_state := {STATE_TERM[j['state']]} |}}")


def qjob_term(q):
    return (f"{{| q_name := {cN(IDX[q['name']])}; q_blocking := {nlist(sorted(q['blocking'], key=lambda x: IDX[x]))}; "
            f"q_flag := {cbool(q['flag'])} |}}")


def ojob_term(o):
    return f"({'OCanceled' if o[1] else 'ORunning'} {cN(IDX[o[0]])})"


# ---------------------------------------------------------------------------------------------
# Python reference (the specification, written independently of the Coq model)
def reference(jobs):
    """jobs: [{name, deps, cancel, rc}] (acyclic) -> {name: (rc, status)}"""
    by = {j["name"]: j for j in jobs}
    out = {}

    def ev(x):
        if x not in out:
            j = by[x]
            badb = any(ev(d)[0] != 0 for d in j["deps"])
            out[x] = (1, "canceled") if (j["cancel"] and badb) else (j.get("rc", 0), "finished")
        return out[x]
    for x in by:
        ev(x)
    return out


def scenario_term(jobs):
    return clist([f"{{| jname := {cN(IDX[j['name']])}; jdeps := {nlist(j['deps'])}; jflag := {cbool(j['cancel'])}; "
                  f"jrc := {cZ(j.get('rc', 0))} |}}" for j in jobs])


def gen_dag(rng, n, p_dep=0.35, p_flag=0.5, p_fail=0.3, shape=None):
    """random DAG over j1..jn in a random listing order (dependents may be listed before blockers)"""
    names = JOBNAMES[:n]
    topo = names[:]
    rng.shuffle(topo)
    pos = {x: i for i, x in enumerate(topo)}
    jobs = []
    for x in names:
        if shape == "chain":
            deps = [topo[pos[x] - 1]] if pos[x] > 0 else []
        elif shape == "diamond":
            k = pos[x]
            deps = [] if k == 0 else ([topo[0]] if k < n - 1 else topo[1:n - 1] or [topo[0]])
        else:
            deps = [y for y in names if pos[y] < pos[x] and rng.random() < p_dep]
        jobs.append({"name": x, "deps": deps, "cancel": rng.random() < p_flag,
                     "rc": rng.choice([1, 2, -9, 137]) if rng.random() < p_fail else 0, "group": "g"})
    return jobs


# ---------------------------------------------------------------------------------------------
# (a) submitter level: one call of the real _update_completed_jobs
def gen_sub_case(rng, arbitrary=False):
    n = rng.randint(1, 8)
    names = JOBNAMES[:n]
    order = names[:]
    rng.shuffle(order)                     # listing order of the cluster's job list
    topo = names[:]
    rng.shuffle(topo)
    pos = {x: i for i, x in enumerate(topo)}
    k_done = rng.randint(0, n // 2)
    k_sub = rng.randint(0, n - k_done)
    done, sub = set(topo[:k_done]), set(topo[k_done:k_done + k_sub])
    jobs = []
    for x in order:
        deps = [y for y in names if pos[y] < pos[x] and rng.random() < 0.45]
        st = "done" if x in done else "submitted" if x in sub else "not_submitted"
        blocked = [] if st != "not_submitted" else [d for d in deps if d not in done]
        if arbitrary and rng.random() < 0.3:
            blocked = [y for y in names + ["ghost"] if y != x and rng.random() < 0.3]
        jobs.append({"name": x, "blocked": blocked, "flag": rng.random() < 0.55, "state": st})
    # rows: results of submitted jobs, handed over in 1..3 portions (nodes write while the submitter loops)
    rows = []
    for x in topo:
        if x in sub and rng.random() < 0.8:
            if rng.random() < 0.12:
                rows.append((x, 1, "canceled"))           # canceled on a compute node
            else:
                rows.append((x, rng.choice(RCS), "finished"))
    if arbitrary:
        for _ in range(rng.choice([0, 0, 1, 2])):
            rows.append((rng.choice(names + ["ghost"]), rng.choice(RCS), "finished"))   # duplicates / odd names
    rng.shuffle(rows)
    nfeeds = rng.choice([1, 1, 1, 2, 3])
    feeds = [[] for _ in range(nfeeds)]
    for r in rows:
        feeds[0 if rng.random() < 0.6 else rng.randrange(nfeeds)].append(r)
    return {"jobs": jobs, "feeds": feeds}


def directed_sub_cases():
    def J(name, blocked, flag, state="not_submitted"):
        return {"name": name, "blocked": blocked, "flag": flag, "state": state}
    F = "finished"
    out = []
    # chain listed dependents-first: j3 <- j2 <- j1(fails)
    out.append({"jobs": [J("j3", ["j2"], True), J("j2", ["j1"], True), J("j1", [], False, "submitted")],
                "feeds": [[("j1", 2, F)]]})
    # the same, blocker first
    out.append({"jobs": [J("j1", [], False, "submitted"), J("j2", ["j1"], True), J("j3", ["j2"], True)],
                "feeds": [[("j1", 2, F)]]})
    # unflagged link in the middle: j2 unflagged runs, j3 waits for it
    out.append({"jobs": [J("j3", ["j2"], True), J("j2", ["j1"], False), J("j1", [], False, "submitted")],
                "feeds": [[("j1", 1, F)]]})
    # diamond: j4 <- {j2, j3} <- j1 ; j2 flagged, j3 not
    out.append({"jobs": [J("j4", ["j2", "j3"], True), J("j2", ["j1"], True), J("j3", ["j1"], False),
                         J("j1", [], False, "submitted")], "feeds": [[("j1", -9, F)]]})
    # failure arrives in the 2nd portion while the first iteration canceled something else
    out.append({"jobs": [J("j3", ["j1"], True), J("j4", ["j2"], True), J("j5", ["j4", "j3"], True),
                         J("j1", [], False, "submitted"), J("j2", [], False, "submitted")],
                "feeds": [[("j1", 1, F)], [("j2", 3, F)]]})
    # a success removed in iteration 1, failure of the other blocker in iteration 2
    out.append({"jobs": [J("j3", ["j1", "j2"], True), J("j5", ["j4"], True), J("j1", [], False, "submitted"),
                         J("j2", [], False, "submitted"), J("j4", [], False, "submitted")],
                "feeds": [[("j1", 0, F), ("j4", 1, F)], [("j2", 1, F)]]})
    # node-level canceled row (rc 1, canceled) cancels flagged dependents at the submitter
    out.append({"jobs": [J("j3", ["j2"], True), J("j2", [], True, "submitted"), J("j1", [], False, "done")],
                "feeds": [[("j2", 1, "canceled")]]})
    # nothing fails
    out.append({"jobs": [J("j2", ["j1"], True), J("j1", [], False, "submitted")], "feeds": [[("j1", 0, F)]]})
    # no results at all
    out.append({"jobs": [J("j2", ["j1"], True), J("j1", [], False, "submitted")], "feeds": [[]]})
    # duplicate rows of one job with different codes, split over two iterations (uniqueness hypothesis violated)
    out.append({"jobs": [J("j2", ["j1"], True), J("j4", ["j3"], True), J("j1", [], False, "submitted"),
                         J("j3", [], False, "submitted")],
                "feeds": [[("j1", 0, F), ("j3", 1, F)], [("j1", 1, F)]]})
    return out


class SubRig:
    """Real Cluster + HpcSubmitter + ResultsAggregator files for one case of the submitter-level loop."""

    def __init__(self, tmp, names, flags):
        from jade.jobs.cluster import Cluster
        from jade.hpc.hpc_submitter import HpcSubmitter
        from jade.jobs.results_aggregator import ResultsAggregator
        self.out = tempfile.mkdtemp(prefix="sub_", dir=tmp)
        sc = {"jobs": [{"name": n, "deps": [], "group": "g", "cancel": flags[n]} for n in names],
              "groups": [{"name": "g", "size": 3, "try": True}], "max_nodes": None}
        self.cfg = jadeenv.make_config(sc)
        self.cfg_file = os.path.join(self.out, "config.json")
        self.cfg.dump(self.cfg_file)
        self.cluster = Cluster.create(self.out, self.cfg)
        ResultsAggregator.create(self.out)
        os.makedirs(os.path.join(self.out, "results"), exist_ok=True)
        self.hs = HpcSubmitter(self.cfg, self.cfg_file, self.cluster, self.out)

    def close(self):
        shutil.rmtree(self.out, ignore_errors=True)


def write_feed(out, feed, rng=None):
    """append the rows to node result files results/results_batch_<k>.csv through the real aggregator"""
    from jade.jobs.results_aggregator import ResultsAggregator
    from jade.result import Result
    for i, (name, rc, status) in enumerate(feed):
        batch = 1 + (i % 2 if rng is None else rng.randrange(3))
        ResultsAggregator.append(out, Result(name, rc, status, 1.5, hpc_job_id="55"), batch_id=batch)


def call_update_completed(hs, out, later_feeds, rng=None):
    """Call the real _update_completed_jobs; portions 2.. of the results appear on disk when the loop
    asks process_results() again (compute nodes writing concurrently).  -> (newly, canceled, n_iterations)"""
    import jade.jobs.results_aggregator as ra
    orig = ra.ResultsAggregator.process_results
    calls = [0]
    pending = list(later_feeds)

    def wrapped(self):
        calls[0] += 1
        if calls[0] >= 2 and pending:
            write_feed(out, pending.pop(0), rng)
        return orig(self)
    ra.ResultsAggregator.process_results = wrapped
    try:
        newly, canceled = hs._update_completed_jobs()
    finally:
        ra.ResultsAggregator.process_results = orig
    return set(newly), [j.name for j in canceled], calls[0]


def run_sub_case(case, tmp, rng=None):
    """-> observation of one real call"""
    from jade.models import JobState
    from jade.jobs.results_aggregator import ResultsAggregator
    names = [j["name"] for j in case["jobs"]]
    rig = SubRig(tmp, names, {j["name"]: j["flag"] for j in case["jobs"]})
    try:
        by = {j["name"]: j for j in case["jobs"]}
        for cj in rig.cluster.job_status.jobs:
            cj.state = JobState(by[cj.name]["state"])
            cj.blocked_by = set(by[cj.name]["blocked"])
        write_feed(rig.out, case["feeds"][0], rng)
        err = None
        newly, canceled, iters = set(), [], 0
        try:
            newly, canceled, iters = call_update_completed(rig.hs, rig.out, case["feeds"][1:], rng)
        except Exception as e:  # noqa: BLE001
            err = type(e).__name__ + ": " + str(e)[:200]
        processed = [(r.name, r.return_code, r.status) for r in ResultsAggregator.list_results(rig.out)]
        consumed = [r for f in case["feeds"][:max(iters, 1)] for r in f]
        extra = list(processed)
        for r in consumed:
            if r in extra:
                extra.remove(r)
        post = [{"name": cj.name, "blocked": sorted(cj.blocked_by), "flag": cj.cancel_on_blocking_job_failure,
                 "state": cj.state.value} for cj in rig.cluster.job_status.jobs]
        left = sorted(os.listdir(os.path.join(rig.out, "results")))
        return {"newly": sorted(newly), "canceled": canceled, "iterations": iters, "cancel_rows": extra,
                "processed": processed, "post": post, "error": err, "node_files_left": [f for f in left if f.endswith(".csv")]}
    finally:
        rig.close()


SUB_FN = ("fun c => match update_completed (fst c) (snd c) with None => None | Some u => "
          "Some (u_jobs u, u_newly u, u_canceled u, u_rows u, length (u_log u)) end")
SUB_EQB = ("option_eqb (fun a b => match a, b with (j1, n1, c1, r1, k1), (j2, n2, c2, r2, k2) => "
           "list_eqb cjob_eqb j1 j2 && seteqN n1 n2 && list_eqb N.eqb c1 c2 && list_eqb row_eqb r1 r2 && Nat.eqb k1 k2 end)")
SUB_IN = "list (list row) * list cjob"
SUB_OUT = "option (list cjob * list N * list N * list row * nat)"


def sub_terms(case, obs):
    inp = "(" + clist([clist([row_term(r) for r in f]) for f in case["feeds"]]) + ", " + clist([cjob_term(j) for j in case["jobs"]]) + ")"
    if obs["error"]:
        return inp, "None"
    exp = ("(Some (" + clist([cjob_term(j) for j in obs["post"]]) + ", " + nlist(obs["newly"]) + ", " + nlist(obs["canceled"])
           + ", " + clist([row_term(r) for r in obs["cancel_rows"]]) + f", {obs['iterations']}%nat))")
    return inp, exp


def sub_oracle(case, obs):
    """C04 at the submitter, judged on what the real call did.  -> [(signature, message)]"""
    probs = []
    if obs["error"]:
        return [("sub-exception", "_update_completed_jobs raised " + obs["error"])]
    pre = {j["name"]: j for j in case["jobs"]}
    post = {j["name"]: j for j in obs["post"]}
    consumed = [r for f in case["feeds"][:obs["iterations"]] for r in f]
    names = [r[0] for r in consumed]
    unique = len(set(names)) == len(names) and not (set(names) & set(obs["canceled"]))
    failed = {r[0] for r in consumed if r[1] != 0} | set(obs["canceled"])
    canceled = set(obs["canceled"])
    if len(obs["canceled"]) != len(canceled):
        probs.append(("sub-canceled-twice", "a job was canceled twice in one call"))
    for n in canceled:
        p = pre[n]
        if not p["flag"]:
            probs.append(("sub-unflagged-canceled", f"job {n} without cancel_on_blocking_job_failure was canceled"))
        if p["state"] != "not_submitted":
            probs.append(("sub-cancel-not-waiting", f"job {n} in state {p['state']} was canceled"))
        if not (set(p["blocked"]) & failed):
            probs.append(("sub-cancel-without-cause", f"job {n} canceled although none of its blockers {p['blocked']} failed or was canceled"))
        rows = [r for r in obs["cancel_rows"] if r[0] == n]
        if len(rows) != 1 or rows[0][1] == 0 or rows[0][2] != "canceled":
            probs.append(("sub-cancel-row", f"canceled job {n} has result rows {rows} (expected one: non-zero code, status canceled)"))
        if post[n]["state"] != "done" or post[n]["blocked"]:
            probs.append(("sub-cancel-state", f"canceled job {n} left in state {post[n]['state']} blocked_by {post[n]['blocked']}"))
        if n not in obs["newly"]:
            probs.append(("sub-cancel-not-completed", f"canceled job {n} is not reported as newly completed"))
    if [r for r in obs["cancel_rows"] if r[0] not in canceled]:
        probs.append(("sub-extra-rows", "rows were written for jobs that were not canceled"))
    for n, p in pre.items():
        if n in canceled:
            continue
        if unique and p["state"] == "not_submitted" and p["flag"] and set(p["blocked"]) & failed:
            probs.append(("sub-escape", f"flagged job {n} blocked by {sorted(set(p['blocked']) & failed)} (failed/canceled) was not canceled"))
        want = p["blocked"]
        if p["state"] == "not_submitted" and p["blocked"]:
            want = [b for b in p["blocked"] if b not in obs["newly"]]
        if sorted(want) != post[n]["blocked"] or post[n]["state"] != p["state"]:
            probs.append(("sub-blockers", f"job {n}: blocked_by {p['blocked']} -> {post[n]['blocked']}, state {p['state']} -> "
                                          f"{post[n]['state']}; completed names {obs['newly']}"))
    if sorted(set(names) | canceled) != obs["newly"]:
        probs.append(("sub-newly", f"newly completed {obs['newly']} is not rows {sorted(set(names))} + canceled {sorted(canceled)}"))
    if obs["node_files_left"] and obs["iterations"] >= len(case["feeds"]):
        probs.append(("sub-results-left", "node result files not consumed"))
    return probs


# ---------------------------------------------------------------------------------------------
# (b) node level: real JobQueue over real AsyncCliCommand objects; only subprocess.Popen is scripted
class NodeRig:
    def __init__(self, tmp, batch, depth, batch_id=1):
        """batch: [{name, blocking, flag, rc}] in submission order"""
        import jade.jobs.async_cli_command as acc
        from jade.jobs.async_cli_command import AsyncCliCommand
        from jade.jobs.job_queue import JobQueue
        from jade.extensions.generic_command.generic_command_parameters import GenericCommandParameters
        from jade.common import JOBS_OUTPUT_DIR, JOBS_STDIO_DIR, RESULTS_DIR
        self.acc = acc
        self.out = tempfile.mkdtemp(prefix="node_", dir=tmp)
        for d in (RESULTS_DIR, JOBS_OUTPUT_DIR, JOBS_STDIO_DIR):
            os.makedirs(os.path.join(self.out, d), exist_ok=True)
        self.batch_id = batch_id
        self.rc = {j["name"]: j.get("rc", 0) for j in batch}
        self.launched = []
        self.ended = {}            # name -> iteration index (poll count) from which poll() reports the end
        self.polls = {}
        rig = self

        class FakePopen:
            def __init__(self, cmd, env=None, **kw):
                self.name = env["JADE_JOB_NAME"]
                self.pid = 4242
                self.returncode = None
                rig.launched.append(self.name)

            def poll(self):
                k = rig.polls.get(self.name, 0)
                rig.polls[self.name] = k + 1
                if self.name in rig.ended and k >= rig.ended[self.name]:
                    self.returncode = rig.rc[self.name]
                return self.returncode
        self._orig_subprocess = acc.subprocess
        acc.subprocess = types.SimpleNamespace(Popen=FakePopen)
        self.jobs = []
        for j in batch:
            p = GenericCommandParameters(name=j["name"], command="echo " + j["name"], blocked_by=set(j["blocking"]),
                                         cancel_on_blocking_job_failure=bool(j["flag"]))
            self.jobs.append(AsyncCliCommand(p, "echo " + j["name"], self.out, batch_id, True, "77"))
        self.queue = JobQueue(depth, poll_interval=1, monitor_func=None, monitor_interval=None)

    def snapshot(self):
        q = self.queue
        out = [(name, bool(job._is_complete and job._pipe is None)) for name, job in q._outstanding_jobs.items()]
        queued = [{"name": j.name, "blocking": sorted(j.get_blocking_jobs()), "flag": bool(j.cancel_on_blocking_job_failure)}
                  for j in q._queued_jobs]
        return out, queued

    def rows(self):
        from jade.jobs.results_aggregator import ResultsAggregator
        f = os.path.join(self.out, "results", f"results_batch_{self.batch_id}.csv")
        if not os.path.exists(f):
            return []
        agg = ResultsAggregator.load_node_results(self.out, self.batch_id)
        return [(r.name, r.return_code, r.status) for r in agg.get_results_unsafe()]

    def check_completions(self, fin):
        """fin: per while-iteration lists of running jobs whose process ends before that iteration's poll"""
        self.polls = {}
        for k, names in enumerate(fin):
            for n in names:
                self.ended.setdefault(n, 0)
                self.ended[n] = k
        # jobs that are not due in this call must not report an end
        self.queue._check_completions()

    def close(self):
        self.acc.subprocess = self._orig_subprocess
        for j in self.jobs:      # silence the "destructed while pending" warning path
            j._is_pending = False
        shutil.rmtree(self.out, ignore_errors=True)


def gen_node_case(rng, arbitrary=False):
    n = rng.randint(1, 7)
    jobs = gen_dag(rng, n, p_dep=0.4, p_flag=0.55, p_fail=0.35, shape=rng.choice([None, None, None, "chain", "diamond"]))
    batch = [{"name": j["name"], "blocking": list(j["deps"]), "flag": j["cancel"], "rc": j["rc"]} for j in jobs]
    if arbitrary:
        for b in batch:
            if rng.random() < 0.15:
                b["blocking"].append("ghost")      # a blocker that is not in the batch
    return {"batch": batch, "depth": rng.choice([1, 2, 2, 3, 8]), "seed": rng.randrange(1 << 30)}


def run_node_case(case, tmp):
    """Drive the real queue the way JobQueue.run()/wait() does, with scripted process ends; every
    _check_completions call becomes one correspondence case.  -> (calls, summary)"""
    import random
    rng = random.Random(case["seed"])
    rig = NodeRig(tmp, case["batch"], case["depth"])
    calls = []
    err = None
    try:
        for j in rig.jobs:
            rig.queue.submit(j)
        steps = 0
        while (rig.queue._outstanding_jobs or rig.queue._queued_jobs) and steps < 60:
            steps += 1
            out0, queued0 = rig.snapshot()
            rows0 = rig.rows()
            running = [n for n, canc in out0 if not canc and n not in rig.ended]
            fin = [[], [], []]
            for nme in running:
                r = rng.random()
                if r < 0.55:
                    fin[0].append(nme)
                elif r < 0.65:
                    fin[1].append(nme)
                elif r < 0.70:
                    fin[2].append(nme)
            if not any(fin) and running and not any(c for _, c in out0) and rng.random() < 0.8:
                fin[0].append(rng.choice(running))
            completed0 = rig.queue._num_completed
            rig.check_completions(fin)
            out1, queued1 = rig.snapshot()
            rows1 = rig.rows()
            # which portions were really consumed: a job due in iteration k that the loop never reached stays running
            seen = [[n for n in f if rig.polls.get(n, 0) > k] for k, f in enumerate(fin)]
            for k, f in enumerate(fin):
                for nme in f:
                    if nme not in seen[k]:
                        rig.ended.pop(nme, None)      # not observed in this call; may end later
            calls.append({"out0": out0, "queued0": queued0, "fin": [[(n, rig.rc[n]) for n in f] for f in seen],
                          "out1": out1, "queued1": queued1, "rows": rows1[len(rows0):],
                          "num_completed": rig.queue._num_completed - completed0})
            rig.queue.process_queue()          # its own _check_completions normally finds nothing new; starts jobs
    except Exception as e:  # noqa: BLE001
        err = type(e).__name__ + ": " + str(e)[:200]
    finally:
        summary = {"launched": list(rig.launched), "rows": rig.rows() if os.path.isdir(rig.out) else [],
                   "stuck_queued": [j.name for j in rig.queue._queued_jobs],
                   "stuck_outstanding": list(rig.queue._outstanding_jobs), "error": err,
                   "num_jobs": rig.queue._num_jobs, "num_completed": rig.queue._num_completed}
        rig.close()
    return calls, summary


NODE_FN = ("fun c => match c with (fin, out, queued) => match check_completions fin out queued with None => None | Some s => "
           "Some (qs_out s, qs_queued s, qs_rows s, length (qs_completed s)) end end")
NODE_EQB = ("option_eqb (fun a b => match a, b with (o1, q1, r1, k1), (o2, q2, r2, k2) => "
            "list_eqb ojob_eqb o1 o2 && list_eqb qjob_eqb q1 q2 && list_eqb row_eqb r1 r2 && Nat.eqb k1 k2 end)")
NODE_IN = "list (list (N * Z)) * list ojob * list qjob"
NODE_OUT = "option (list ojob * list qjob * list row * nat)"


def node_terms(call):
    fin = clist([clist([f"({cN(IDX[n])}, {cZ(rc)})" for n, rc in f]) for f in call["fin"]])
    inp = f"({fin}, {clist([ojob_term(o) for o in call['out0']])}, {clist([qjob_term(q) for q in call['queued0']])})"
    exp = (f"(Some ({clist([ojob_term(o) for o in call['out1']])}, {clist([qjob_term(q) for q in call['queued1']])}, "
           f"{clist([row_term(r) for r in call['rows']])}, {call['num_completed']}%nat))")
    return inp, exp


def node_oracle(case, calls, summary):
    """C04 on a compute node: every job of the batch ends as the reference says (blockers outside the
    batch never complete here, jobs waiting for them are expected to stay queued)."""
    probs = []
    if summary["error"]:
        return [("node-exception", "JobQueue raised / misbehaved: " + summary["error"])]
    batch = case["batch"]
    names = {b["name"] for b in batch}
    open_ = {b["name"] for b in batch if not set(b["blocking"]) <= names}
    changed = True
    while changed:          # jobs that can never start on this node: transitively waiting for an outside blocker
        changed = False
        for b in batch:
            if b["name"] not in open_ and set(b["blocking"]) & open_:
                # a flagged job may still be canceled through another blocker; keep it simple: exclude it from the check
                open_.add(b["name"])
                changed = True
    ref = reference([{"name": b["name"], "deps": [d for d in b["blocking"] if d in names], "cancel": b["flag"], "rc": b["rc"]}
                     for b in batch])
    rows = {}
    for r in summary["rows"]:
        rows.setdefault(r[0], []).append(r)
    launches = summary["launched"]
    if len(set(launches)) != len(launches):
        probs.append(("node-double-launch", f"a job was started twice: {launches}"))
    for b in batch:
        n = b["name"]
        got = rows.get(n, [])
        for r in got:
            if r[2] == "canceled":
                if n in launches:
                    probs.append(("node-canceled-launched", f"job {n} has a canceled result but its command was started"))
                if r[1] == 0:
                    probs.append(("node-canceled-rc0", f"canceled result of {n} has return code 0"))
                if not b["flag"]:
                    probs.append(("node-unflagged-canceled", f"job {n} without the flag was canceled on the node"))
        if n in open_:
            continue
        if len(got) != 1:
            probs.append(("node-row-count", f"job {n} has {len(got)} result rows {got}; queued left: {summary['stuck_queued']}"))
            continue
        if (got[0][1], got[0][2]) != ref[n]:
            probs.append(("node-outcome", f"job {n} ended as {got[0][1:]} but the reference outcome is {ref[n]}"))
        if ref[n][1] == "finished" and launches.count(n) != 1:
            probs.append(("node-not-launched", f"job {n} should run exactly once, launches: {launches.count(n)}"))
    if not open_ and (summary["stuck_queued"] or summary["stuck_outstanding"]):
        probs.append(("node-stuck", f"queue did not drain: {summary['stuck_queued']} {summary['stuck_outstanding']}"))
    if not open_ and summary["num_jobs"] != summary["num_completed"]:
        probs.append(("node-counters", f"num_jobs {summary['num_jobs']} != num_completed {summary['num_completed']}"))
    return probs


# ---------------------------------------------------------------------------------------------
# (c) whole submissions: real submitter rounds + real node queues
def gen_e2e(rng, shape=None):
    n = rng.randint(2, 9)
    jobs = gen_dag(rng, n, p_dep=rng.choice([0.2, 0.35, 0.5]), p_flag=rng.choice([0.3, 0.6, 1.0]),
                   p_fail=rng.choice([0.15, 0.3, 0.5]), shape=shape)
    return {"jobs": jobs,
            "groups": [{"name": "g", "size": rng.choice([1, 1, 2, 3, 4, 500]), "try": rng.random() < 0.6, "time": False}],
            "max_nodes": rng.choice([1, 2, 3, None]), "depth": rng.choice([1, 2, 3]),
            "node_p": rng.choice([0.4, 0.7, 1.0]), "seed": rng.randrange(1 << 30)}


def directed_e2e():
    def J(name, deps, cancel, rc=0):
        return {"name": name, "deps": deps, "cancel": cancel, "rc": rc, "group": "g"}
    base = {"max_nodes": None, "depth": 2, "node_p": 1.0, "seed": 7}
    out = []
    chain = [J("j4", ["j3"], True), J("j3", ["j2"], True), J("j2", ["j1"], True), J("j1", [], False, 2)]
    for size, tr in ((1, True), (2, True), (4, True), (500, True), (1, False), (3, False)):
        out.append(dict(base, jobs=chain, groups=[{"name": "g", "size": size, "try": tr, "time": False}]))
    diamond = [J("j4", ["j2", "j3"], True), J("j5", ["j4"], False), J("j2", ["j1"], True), J("j3", ["j1"], False), J("j1", [], False, 1),
               J("j6", ["j5"], True)]
    for size, tr in ((1, True), (2, True), (3, True), (500, True), (2, False)):
        out.append(dict(base, jobs=diamond, groups=[{"name": "g", "size": size, "try": tr, "time": False}], max_nodes=1))
    mixed = [J("j1", [], False, 0), J("j2", ["j1"], True, 5), J("j3", ["j2"], False, 0), J("j4", ["j3"], True, 0),
             J("j5", ["j2", "j1"], True), J("j6", ["j5"], True), J("j7", ["j6", "j3"], True)]
    for size in (1, 2, 3, 500):
        out.append(dict(base, jobs=mixed, groups=[{"name": "g", "size": size, "try": True, "time": False}], depth=1))
    return out


def run_e2e(sc, tmp, record=None, max_rounds=40):
    """Whole submission on the real code: HpcSubmitter.run rounds (cluster re-read from disk each round, the
    way try-submit-jobs does) and JobQueue.run_jobs for every batch handed to (scripted) sbatch.
    record: optional list collecting (kind, case, observation) of the inner cancel-loop calls."""
    import random
    import jade.hpc.slurm_manager as sm
    import jade.jobs.async_cli_command as acc
    import jade.jobs.job_queue as jq
    import time as _time
    from jade.jobs.cluster import Cluster
    from jade.hpc.hpc_submitter import HpcSubmitter
    from jade.jobs.results_aggregator import ResultsAggregator
    from jade.jobs.job_configuration_factory import create_config_from_file
    from jade.jobs.async_cli_command import AsyncCliCommand
    from jade.jobs.job_queue import JobQueue
    from jade.common import JOBS_OUTPUT_DIR, JOBS_STDIO_DIR, RESULTS_DIR
    rng = random.Random(sc["seed"])
    out = tempfile.mkdtemp(prefix="e2e_", dir=tmp)
    rc = {j["name"]: j.get("rc", 0) for j in sc["jobs"]}
    launched, finished = [], set()
    obs = {"rounds": 0, "error": None, "sub_calls": []}

    class FakePopen:
        def __init__(self, cmd, env=None, **kw):
            self.name = env["JADE_JOB_NAME"]
            self.pid = 4242
            self.returncode = None
            launched.append(self.name)

        def poll(self):
            if self.name in finished:
                self.returncode = rc[self.name]
            return self.returncode

    polls = [0]

    def sleep(_s):
        # watchdog (added by the coordinator): a node whose queue never drains must not hang the check;
        # an unflagged job that is never started once its blockers have outcomes is a C04 violation
        polls[0] += 1
        if polls[0] > 4000:
            raise RuntimeError("node idles forever: queued jobs are never started although nothing is running "
                               "(JobQueue polled 4000 times)")
        pend = [n for n in launched if n not in finished]
        for n in pend:
            if rng.random() < 0.6:
                finished.add(n)
        if pend and not any(n in finished for n in pend):
            finished.add(rng.choice(pend))
    orig = (sm.run_command, acc.subprocess, jq.time)
    fake = jadeenv.FakeSlurm()
    sm.run_command = fake
    acc.subprocess = types.SimpleNamespace(Popen=FakePopen)
    jq.time = types.SimpleNamespace(sleep=sleep, time=_time.time)
    try:
        cfg = jadeenv.make_config(sc)
        cfg_file = os.path.join(out, "config.json")
        cfg.dump(cfg_file)
        cluster = Cluster.create(out, cfg)
        ResultsAggregator.create(out)
        for d in (RESULTS_DIR, JOBS_OUTPUT_DIR, JOBS_STDIO_DIR):
            os.makedirs(os.path.join(out, d), exist_ok=True)
        done = False
        idle = 0
        while not done and obs["rounds"] < max_rounds:
            if obs["rounds"] > 0:
                cluster, promoted = Cluster.deserialize(out, try_promote_to_submitter=True, deserialize_jobs=True)
                if not promoted:
                    obs["error"] = "could not become submitter"
                    break
            hs = HpcSubmitter(cfg, cfg_file, cluster, out)
            inner = hs._update_completed_jobs

            def recording(inner=inner, cluster=cluster):
                pre = [{"name": j.name, "blocked": sorted(j.blocked_by), "flag": j.cancel_on_blocking_job_failure,
                        "state": j.state.value} for j in cluster.job_status.jobs]
                node_files = os.path.join(out, RESULTS_DIR)
                feed = []
                for f in sorted(os.listdir(node_files)):
                    if f.startswith("results_batch_") and f.endswith(".csv"):
                        agg = ResultsAggregator.load_node_results_file(__import__("pathlib").Path(node_files) / f)
                        feed += [(r.name, r.return_code, r.status) for r in agg.get_results_unsafe()]
                before = [(r.name, r.return_code, r.status) for r in ResultsAggregator.list_results(out)]
                import jade.jobs.results_aggregator as ra
                orig_pr = ra.ResultsAggregator.process_results
                ncalls = [0]

                def counting(self_):
                    ncalls[0] += 1
                    return orig_pr(self_)
                ra.ResultsAggregator.process_results = counting
                try:
                    newly, canceled = inner()
                finally:
                    ra.ResultsAggregator.process_results = orig_pr
                after = [(r.name, r.return_code, r.status) for r in ResultsAggregator.list_results(out)]
                extra = after[len(before):]
                for r in feed:
                    if r in extra:
                        extra.remove(r)
                post = [{"name": j.name, "blocked": sorted(j.blocked_by), "flag": j.cancel_on_blocking_job_failure,
                         "state": j.state.value} for j in cluster.job_status.jobs]
                obs["sub_calls"].append(({"jobs": pre, "feeds": [feed]},
                                         {"newly": sorted(newly), "canceled": [j.name for j in canceled],
                                          "iterations": ncalls[0], "cancel_rows": extra, "post": post, "error": None,
                                          "node_files_left": []}))
                return newly, canceled
            hs._update_completed_jobs = recording
            done = hs.run()
            cluster.demote_from_submitter()
            obs["rounds"] += 1
            if done:
                break
            pending = [(i, b) for i, b in fake.jobs.items() if b["state"] == "PENDING"]
            ran = False
            for k, (i, b) in enumerate(pending):
                if rng.random() < sc["node_p"] or (k == len(pending) - 1 and not ran):
                    idx = int(os.path.basename(b["script"]).split("_batch_")[1].split(".")[0])
                    bc = create_config_from_file(os.path.join(out, f"config_batch_{idx}.json"))
                    jobs = [AsyncCliCommand(j, "echo " + j.name, out, idx, True, i) for j in bc.iter_jobs()]
                    JobQueue.run_jobs(jobs, max_queue_depth=sc["depth"], poll_interval=1, monitor_func=None, monitor_interval=None)
                    b["state"] = "GONE"
                    ran = True
            idle = 0 if (ran or pending) else idle + 1
            if idle > 2:
                break
        obs["complete"] = bool(done)
        obs["launched"] = list(launched)
        obs["rows"] = [(r.name, r.return_code, r.status) for r in ResultsAggregator.list_results(out)]
        obs["states"] = {j.name: (j.state.value, sorted(j.blocked_by)) for j in cluster.job_status.jobs}
        obs["batches"] = len(fake.jobs)
    except Exception as e:  # noqa: BLE001
        import traceback
        obs["error"] = type(e).__name__ + ": " + str(e)[:300] + " @ " + traceback.format_exc()[-400:]
        obs.setdefault("launched", list(launched))
        obs.setdefault("rows", [])
        obs.setdefault("complete", False)
    finally:
        sm.run_command, acc.subprocess, jq.time = orig
        shutil.rmtree(out, ignore_errors=True)
    return obs


def e2e_oracle(sc, obs):
    probs = []
    if obs["error"]:
        return [("e2e-exception", "submission raised " + obs["error"])]
    ref = reference(sc["jobs"])
    rows = {}
    for r in obs["rows"]:
        rows.setdefault(r[0], []).append(r)
    launches = obs["launched"]
    by = {j["name"]: j for j in sc["jobs"]}
    for n, j in by.items():
        got = rows.get(n, [])
        for r in got:
            if r[2] == "canceled":
                if n in launches:
                    probs.append(("canceled-but-launched", f"job {n} has a canceled result but its command was started"))
                if r[1] == 0:
                    probs.append(("canceled-rc0", f"canceled result of {n} has return code 0"))
                if not j["cancel"]:
                    probs.append(("unflagged-canceled", f"job {n} without cancel_on_blocking_job_failure was canceled"))
                if not any(ref[d][0] != 0 for d in j["deps"]):
                    probs.append(("cancel-without-cause", f"job {n} canceled although no blocker failed or was canceled"))
        if launches.count(n) > 1:
            probs.append(("double-launch", f"job {n} was started {launches.count(n)} times"))
        if ref[n][1] == "canceled" and n in launches:
            probs.append(("flagged-dependent-ran", f"flagged job {n} ran although a blocker failed/was canceled (deps {j['deps']})"))
        if len(got) > 1:
            probs.append(("two-results", f"job {n} has {len(got)} results"))
        if obs["complete"] or got:
            if len(got) == 1 and (got[0][1], got[0][2]) != ref[n]:
                probs.append(("outcome-differs", f"job {n} ended as {got[0][1:]}; reference outcome {ref[n]}"))
        if obs["complete"] and not got:
            probs.append(("no-result", f"submission reported complete but job {n} has no result (reference {ref[n]}); "
                                       f"state {obs['states'].get(n)}"))
        if obs["complete"] and ref[n][1] == "finished" and launches.count(n) != 1:
            probs.append(("not-run", f"job {n} must run exactly once whatever its blockers did; launches {launches.count(n)}"))
    if not obs["complete"]:
        probs.append(("incomplete", f"submission did not complete in {obs['rounds']} rounds; states {obs.get('states')}"))
    return probs
