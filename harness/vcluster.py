"""Virtual cluster: one Python process hosts a whole JADE submission around the REAL jade code.

* virtual OS processes (login `submit-jobs`, each node's `run-jobs`, every `try-submit-jobs`,
  user commands) are threads; exactly one runs at a time (baton); the scheduler decides at every
  yield point who moves next, from one PRNG or from a recorded list of choice labels (replay);
* the boundaries of jade are replaced from outside (never /repo itself): SoftFileLock (marker-file
  stand-in whose acquire/release are yield points), run_command for sbatch/squeue/scancel (real text
  in SLURM's formats), `jade try-submit-jobs` / `jade pipeline ...` command lines (run the real
  click callbacks as child processes), subprocess.Popen of job commands (virtual processes whose
  completion the schedule decides), time.sleep, hook/report commands;
* every visible step appends one event (dict) to `trace`; payloads are read from what the real code
  really wrote (batch config files, script text, cluster files).
See DESIGN.md section 3.1.
"""
import glob
import json
import logging
import os
import random
import re
import shutil
import socket
import sys
import tempfile
import threading
import types
from pathlib import Path

logging.disable(logging.CRITICAL)

import jade.cli.cancel_jobs as cj
import jade.cli.resubmit_jobs as rsj
import jade.cli.run_jobs as rj
import jade.cli.try_submit_jobs as tsj
import jade.hpc.hpc_submitter as hs
import jade.hpc.slurm_manager as sm
import jade.jobs.async_cli_command as acc
import jade.jobs.cluster as cl
import jade.jobs.job_queue as jq
import jade.jobs.job_runner as jr
import jade.jobs.job_submitter as js
import jade.jobs.results_aggregator as ra
from filelock import Timeout as LockTimeout
from jade.jobs.cluster import Cluster
from jade.jobs.job_submitter import JobSubmitter
from jade.jobs.results_aggregator import ResultsAggregator

from harness import jadeenv

_DEVNULL = open(os.devnull, "w")
_REAL_SLEEP = __import__("time").sleep
_REAL_OS_REMOVE = os.remove
_REAL_GETHOSTNAME = socket.gethostname


class Killed(BaseException):
    """Raised inside a virtual process that the schedule killed (never resumed in practice)."""


class InjectedError(Exception):
    pass


class Proc:
    """A virtual OS process."""

    def __init__(self, pid, kind, host, env, parent=None, batch=None):
        self.pid = pid
        self.kind = kind          # login | node | try | cancel | resubmit | user | pipeline
        self.host = host
        self.env = env
        self.parent = parent
        self.batch = batch        # hpc id (str) for node processes and their children


class Actor:
    """A thread carrying a stack of virtual processes (a node process runs its trailing
    try-submit-jobs as a child process on the same thread)."""

    def __init__(self, vc, proc, fn):
        self.vc = vc
        self.stack = [proc]
        self.fn = fn
        self.go = threading.Event()
        self.done = False
        self.killed = False
        self.exc = None
        self.exit_code = None
        self.waiting_lock = None
        self.sleeping = False      # in a poll sleep; runnable only when `dirty`
        self.dirty = True
        self.thread = threading.Thread(target=self._run, daemon=True)

    @property
    def proc(self):
        return self.stack[-1]

    @property
    def label(self):
        return "p%d" % self.stack[0].pid

    def _run(self):
        self.go.wait()
        self.go.clear()
        try:
            if self.killed:
                raise Killed()
            self.fn()
            self.exit_code = 0
        except SystemExit as e:
            self.exit_code = e.code if isinstance(e.code, int) else (0 if e.code is None else 1)
        except Killed:
            pass
        except BaseException as e:  # noqa
            self.exc = e
            self.exit_code = 1
        self.done = True
        if not self.killed:
            self.vc._actor_finished(self)
        self.vc.baton.set()


VC = None   # the active virtual cluster (module-level because the patches are module-level)


def cur_actor():
    vc = VC
    if vc is None:
        return None
    t = threading.current_thread()
    a = vc.cur
    if a is not None and a.thread is t:
        return a
    return None


# =================================================================================================
# stand-ins installed once per interpreter
# =================================================================================================
class StandInLock:
    """Marker-file lock with the on-disk protocol of filelock.SoftFileLock (O_EXCL create, unlink on
    release).  acquire() and release() are yield points."""

    def __init__(self, lock_file, timeout=-1, **kw):
        self.path = str(lock_file)
        self.timeout = timeout
        self._held = False

    @property
    def lock_file(self):
        return self.path

    @property
    def is_locked(self):
        return self._held

    def acquire(self, timeout=None, **kw):
        a = cur_actor()
        if a is None:   # harness code outside the virtual processes: do not take part in the protocol
            if os.path.exists(self.path):
                raise LockTimeout(self.path)
            self._held = True
            self._noop = True
            return self
        vc = a.vc
        self._noop = False
        name = os.path.basename(self.path)
        while True:
            a.waiting_lock = self.path
            vc.yield_point()
            a.waiting_lock = None
            if a.proc.pid in vc.pending_lock_timeout:
                vc.pending_lock_timeout.discard(a.proc.pid)
                vc.emit("lock_timeout", lock=name)
                raise LockTimeout(self.path)
            try:
                fd = os.open(self.path, os.O_WRONLY | os.O_CREAT | os.O_EXCL)
                os.close(fd)
                break
            except FileExistsError:
                holder = vc.locks.get(self.path)
                if vc.break_stale and (holder is None or holder in vc.dead_pids):
                    # filelock >= 3.13 breaks markers whose owner is dead (same host) / malformed ones
                    try:
                        _REAL_OS_REMOVE(self.path)
                    except FileNotFoundError:
                        pass
                    vc.locks.pop(self.path, None)
                    vc.emit("lock_broken", lock=name)
                    continue
                continue
        vc.locks[self.path] = a.proc.pid
        self._held = True
        vc.emit("acquire", lock=name)
        vc.yield_point()     # a kill point inside the locked section
        return self

    def release(self, force=False):
        if not self._held:
            return
        self._held = False
        if getattr(self, "_noop", False):
            return
        a = cur_actor()
        vc = a.vc if a else VC
        try:
            os.unlink(self.path)
        except FileNotFoundError:
            pass
        vc.locks.pop(self.path, None)
        if a is not None:
            vc.emit("release", lock=os.path.basename(self.path))
            if os.path.basename(self.path) == "cluster_config.json.lock" or self.path.endswith(Cluster.LOCK_FILE):
                vc.observe()
            vc.yield_point()

    def __enter__(self):
        return self.acquire()

    def __exit__(self, *a):
        self.release()


class FakePopen:
    """A job's process: started at construction (yield point + launch event); the schedule decides
    when it ends; poll() then returns the scenario's exit code."""

    def __init__(self, cmd, env=None, stdout=None, stderr=None, **kw):
        a = cur_actor()
        vc = a.vc
        if vc.faults.get("launch_error") == env["JADE_JOB_NAME"] and ("launch_error", env["JADE_JOB_NAME"]) not in vc.fired:
            # the job's executable cannot be started (missing, not executable): Popen itself raises
            vc.fired.append(("launch_error", env["JADE_JOB_NAME"]))
            vc.emit("launch_error", job=env["JADE_JOB_NAME"])
            raise FileNotFoundError(2, "No such file or directory", str(cmd[0]) if cmd else "")
        self.name = env["JADE_JOB_NAME"]
        self.pid = 100000 + len(vc.launches)
        self.returncode = None
        self._node = a
        vc.launches.append(self.name)
        vc.running[self.name] = a
        vc.popens.setdefault(a.label, []).append(self)
        vc.live.setdefault(a.label, set()).add(self.name)
        vc.emit("launch", job=self.name, argv=list(cmd),
                env={k: env.get(k) for k in ("JADE_RUNTIME_OUTPUT", "JADE_JOB_NAME")},
                live=len(vc.live[a.label]), rows=vc.row_names_on_disk())
        vc.yield_point()

    def poll(self):
        vc = VC
        if self.returncode is None and self.name in vc.finished:
            self.returncode = vc.rc.get(self.name, 0)
            vc.live.get(self._node.label, set()).discard(self.name)
        return self.returncode

    def kill(self):
        pass

    def wait(self, timeout=None):
        return self.poll()


def _fake_hpc_command(cmd, output=None, **kw):
    """sbatch / squeue / scancel in the jade.hpc.slurm_manager namespace."""
    a = cur_actor()
    vc = a.vc if a else VC
    cmd = str(cmd)
    if output is None:
        output = {}
    output["stdout"] = ""
    output["stderr"] = ""
    if cmd.startswith("sbatch"):
        script = cmd.split()[1]
        vc.yield_point()
        info = vc.describe_batch(script)
        ok = vc.next_sbatch_ok()
        if not ok:
            output["stderr"] = "sbatch: error: Batch job submission failed: Socket timed out on send/recv operation"
            vc.emit("sbatch", ok=False, id=None, **info)
            return 1
        i = str(vc.next_id)
        vc.next_id += 1
        vc.hpc[i] = {"script": script, "state": "PENDING", "index": info["index"], "jobs": [j[0] for j in info["jobs"]]}
        output["stdout"] = f"Submitted batch job {i}\n"
        vc.emit("sbatch", ok=True, id=i, active=vc.active_ids(), **info)
        return 0
    if cmd.startswith("squeue"):
        vc.yield_point()
        if vc.squeue_failures > 0:
            vc.squeue_failures -= 1
            output["stderr"] = "slurm_load_jobs error: Socket timed out on send/recv operation"
            vc.emit("squeue", ok=False, active=[])
            return 1
        # the columns and the -j / -n filters are the ones the command line asks for
        m = re.search(r'--Format "([^"]*)"', cmd)
        cols = m.group(1).split(",") if m else ["jobid", "state"]
        toks = cmd.split()
        only_id = toks[toks.index("-j") + 1] if "-j" in toks else None
        only_name = toks[toks.index("-n") + 1] if "-n" in toks else None
        live = ("PENDING", "RUNNING", "SUSPENDED")
        if only_id is not None and vc.hpc.get(only_id, {}).get("state") not in live:
            output["stderr"] = "slurm_load_jobs error: Invalid job id specified\n"
            vc.emit("squeue_one", ok=False, one=only_id, n=0)
            return 1
        rows = []
        for i, b in vc.hpc.items():
            if b["state"] not in live:
                continue
            if only_id is not None and i != only_id:
                continue
            nm = os.path.splitext(os.path.basename(b.get("script", "")))[0] or "job"
            if only_name is not None and nm != only_name:
                continue
            vals = {"jobid": i, "state": b.get("shown") if b["state"] == "SUSPENDED" and b.get("shown") else b["state"], "name": nm}
            rows.append("".join(f"{vals.get(c, 'x'):<20}" for c in cols))
        output["stdout"] = "\n".join(rows) + ("\n" if rows else "")
        if only_id is None and only_name is None:
            vc.emit("squeue", ok=True, active=vc.active_ids())
        else:
            vc.emit("squeue_one", ok=True, one=only_id or only_name, n=len(rows))
        return 0
    if cmd.startswith("scancel"):
        i = cmd.split()[1]
        vc.yield_point()
        was = vc.hpc.get(i, {}).get("state")
        if was in ("PENDING", "RUNNING", "SUSPENDED"):
            vc.hpc[i]["state"] = "CANCELLED"
            vc.kill_batch(i)
        vc.emit("scancel", id=i, was=was)
        if was not in ("PENDING", "RUNNING", "SUSPENDED"):
            # an id the controller no longer knows (finished long ago / never existed): scancel fails
            if isinstance(output, dict):
                output["stderr"] = f"scancel: error: Kill job error on job id {i}: Invalid job id specified\n"
            return 1
        return 0
    raise RuntimeError("unexpected HPC command: " + cmd)


def _child_command(cmd, output=None, **kw):
    """run_command in jade.cli.run_jobs / cancel_jobs / job_submitter / show_status namespaces."""
    a = cur_actor()
    vc = a.vc if a else VC
    cmd = str(cmd)
    if isinstance(output, dict):
        output["stdout"] = ""
        output["stderr"] = ""
    parts = cmd.split()
    if parts[:2] == ["jade", "try-submit-jobs"]:
        return vc.run_child("try", lambda: tsj.try_submit_jobs.callback(output=parts[2], verbose=False))
    if parts[:3] == ["jade", "pipeline", "submit-next-stage"]:
        vc.emit("pipeline_next", args=parts[3:])
        if vc.pipeline_next is not None:
            return vc.run_child("pipeline", lambda: vc.pipeline_next(parts[3:]))
        return 0
    if cmd in vc.hook_commands:
        env = kw.get("env") or {}
        vc.emit("hook", which=vc.hook_commands[cmd],
                env={k: env.get(k) for k in ("JADE_RUNTIME_OUTPUT", "JADE_SUBMISSION_GROUP")})
        vc.yield_point()
        return vc.hook_rc.get(vc.hook_commands[cmd], 0)
    if parts[:1] == ["jade"]:     # report commands: recorded; show-events does what the real command does first
        vc.emit("report_cmd", cmd=parts[1:3])
        if parts[1:2] == ["show-events"] and "-o" in parts:
            # `jade show-events` constructs EventsSummary(output), whose first construction consolidates every
            # *events.log written so far into events/<name>.json (and never again)
            from jade.events import EventsSummary
            try:
                EventsSummary(parts[parts.index("-o") + 1])
                vc.emit("events_consolidated")
            except Exception as e:   # noqa
                vc.emit("events_consolidated", error=type(e).__name__)
        if isinstance(output, dict):
            output["stdout"] = ""
            output["stderr"] = ""
        return 0
    raise RuntimeError("unexpected command: " + cmd)


def _child_check_command(cmd, *a, **kw):
    ret = _child_command(cmd, *a, **kw)
    if ret != 0:
        from jade.exceptions import ExecutionError
        raise ExecutionError(f"command returned error code: {ret}")
    return ret


class _SleepProxy:
    """time module stand-in: sleep() is a yield point."""

    def __init__(self, kind):
        self.kind = kind

    def sleep(self, s):
        a = cur_actor()
        if a is None:
            return
        if self.kind == "poll":
            vc = a.vc
            ps = vc.popens.get(a.label, [])
            a.dirty = any(p.returncode is None and p.name in vc.finished for p in ps) or \
                not any(p.returncode is None for p in ps)
            a.sleeping = True
            vc.yield_point()
            a.sleeping = False
        else:
            a.vc.yield_point()

    def time(self):
        return __import__("time").time()

    def __getattr__(self, k):
        return getattr(__import__("time"), k)


class _OsProxy:
    """os module stand-in for jade.hpc.hpc_submitter: remove(submitter.lock) becomes an event."""

    def remove(self, p):
        a = cur_actor()
        if a is not None and os.path.basename(str(p)) == hs.HpcSubmitter.LOCK_FILENAME:
            a.vc.fault_point("write:marker_remove")
            _REAL_OS_REMOVE(p)
            a.vc.emit("marker_remove")
            return
        return _REAL_OS_REMOVE(p)

    def __getattr__(self, k):
        return getattr(os, k)


_INSTALLED = False
_ORIG = {}


def _wrap_method(cls, name, before=None, after=None, static=False, classm=False):
    orig = cls.__dict__[name]
    f = orig.__func__ if isinstance(orig, (staticmethod, classmethod)) else orig
    _ORIG[(cls, name)] = orig

    def wrapper(*args, **kw):
        if before is not None and cur_actor() is not None:
            before(*args, **kw)
        try:
            res = f(*args, **kw)
        except BaseException as e:
            if after is not None and cur_actor() is not None:
                after(args, kw, None, e)
            raise
        if after is not None and cur_actor() is not None:
            after(args, kw, res, None)
        return res

    wrapper.__name__ = name
    if isinstance(orig, staticmethod):
        setattr(cls, name, staticmethod(wrapper))
    elif isinstance(orig, classmethod):
        setattr(cls, name, classmethod(wrapper))
    else:
        setattr(cls, name, wrapper)


def install():
    """Replace jade's OS/library boundaries (idempotent; per interpreter)."""
    global _INSTALLED
    if _INSTALLED:
        return
    _INSTALLED = True
    cl.SoftFileLock = StandInLock
    ra.SoftFileLock = StandInLock
    sm.run_command = _fake_hpc_command
    for mod in (rj, cj, js):
        mod.run_command = _child_command
    js.check_run_command = _child_check_command
    jr.run_command = _child_command
    jr.check_run_command = _child_check_command
    js.JobSubmitter._save_repository_info = lambda self, reg: None
    acc.subprocess = types.SimpleNamespace(Popen=FakePopen, PIPE=-1)
    jq.time = _SleepProxy("poll")
    cj.time = _SleepProxy("other")
    jr.time = _SleepProxy("other")
    hs.os = _OsProxy()
    socket.gethostname = lambda: (cur_actor().proc.host if cur_actor() else _REAL_GETHOSTNAME())
    # logging setup of the CLIs would pile handlers up inside one interpreter
    null_logger = logging.getLogger("verif.null")
    for mod in list(sys.modules.values()):
        name = getattr(mod, "__name__", "")
        if not name.startswith("jade."):
            continue
        if hasattr(mod, "setup_logging") and name != "jade.loggers":
            mod.setup_logging = lambda *a, **k: null_logger
        if hasattr(mod, "setup_event_logging") and name != "jade.loggers":
            mod.setup_event_logging = lambda *a, **k: None
    # --- observation wrappers (events) -----------------------------------------------------------
    def after_deser(args, kw, res, exc):
        vc = VC
        if exc is not None:
            vc.emit("load_error", error=type(exc).__name__)
            return
        cluster, promoted = res
        vc.emit("load", try_promote=bool(kw.get("try_promote_to_submitter", False)), promoted=bool(promoted),
                complete=bool(cluster.config.is_complete), canceled=bool(cluster.config.is_canceled))
        if promoted:
            cur_actor().proc.promoted = True
    _wrap_method(Cluster, "_deserialize", after=after_deser)

    def after_create(args, kw, res, exc):
        if exc is None:
            VC.emit("create", stage=kw.get("pipeline_stage_num"))
            VC.observe()
    _wrap_method(Cluster, "create", after=after_create)

    def after_demote(args, kw, res, exc):
        VC.emit("demote", ok=exc is None, error=type(exc).__name__ if exc else None)
    _wrap_method(Cluster, "_demote_from_submitter", after=after_demote)

    def after_update(args, kw, res, exc):
        VC.emit("update_status", ok=exc is None, error=type(exc).__name__ if exc else None,
                snapshot=VC.read_snapshot())
    _wrap_method(Cluster, "_update_job_status", after=after_update)

    def after_mark_complete(args, kw, res, exc):
        VC.emit("mark_complete", ok=exc is None, error=type(exc).__name__ if exc else None, active=VC.active_ids())
    _wrap_method(Cluster, "_mark_complete", after=after_mark_complete)

    def after_mark_canceled(args, kw, res, exc):
        VC.emit("mark_canceled", ok=exc is None, active=VC.active_ids())
    _wrap_method(Cluster, "_mark_canceled", after=after_mark_canceled)

    def after_prepare(args, kw, res, exc):
        VC.emit("prepare_resubmit", ok=exc is None, rerun=sorted(args[1]),
                blockers={k: sorted(v) for k, v in args[2].items()}, snapshot=VC.read_snapshot() if exc is None else None)
    _wrap_method(Cluster, "prepare_for_resubmission", after=after_prepare)

    def after_complete_id(args, kw, res, exc):
        VC.emit("complete_hpc_id", ok=exc is None, id=args[1])
    _wrap_method(Cluster, "_complete_hpc_job_id", after=after_complete_id)

    def before_serialize_file(text, filename):
        VC.fault_point("write:" + os.path.basename(filename))
    _wrap_method(Cluster, "_serialize_file", before=before_serialize_file)

    def before_ver1(self):
        VC.fault_point("write:config_version")
    _wrap_method(Cluster, "_serialize_config_version", before=before_ver1)

    def before_ver2(self):
        VC.fault_point("write:job_status_version")
    _wrap_method(Cluster, "_serialize_job_status_version", before=before_ver2)

    def after_process(args, kw, res, exc):
        VC.emit("collect", ok=exc is None, error=type(exc).__name__ if exc else None,
                rows=[[r.name, r.return_code, r.status.value if hasattr(r.status, "value") else str(r.status)] for r in (res or [])])
    _wrap_method(ResultsAggregator, "_process_results", after=after_process)

    def before_append_result(self, result):
        cur_actor().pending_row = result
        VC.fault_point("append:" + self._filename.name)
    _wrap_method(ResultsAggregator, "append_result", before=before_append_result)
    def before_consolidate(self, *a, **kw):
        # the copy of a node file's rows into processed_results.csv (a write that can hit the quota)
        VC.fault_point("consolidate:processed_results.csv")

    def after_consolidate(args, kw, res, exc):
        # rows of one node file are now in the consolidated file (a later failure of the same round does not undo it)
        if exc is None:
            VC.emit("moved", rows=[[r.name, r.return_code, r.status.value if hasattr(r.status, "value") else str(r.status)]
                                   for r in (args[1] if len(args) > 1 else kw.get("results", []))])
    _wrap_method(ResultsAggregator, "_append_processed_results", before=before_consolidate, after=after_consolidate)

    # a write to the consolidated results file that fails at the file level (quota exceeded on write / flush): the file
    # has already been opened - with mode "w" it is already truncated - when the error is raised; opening it is also a
    # scheduling point, so a process can be killed between the open and the write
    import builtins as _bi

    class _FailingWrites:
        def __init__(self, fh):
            self._fh = fh

        def write(self, data):
            raise OSError(122, "Disk quota exceeded")

        def __getattr__(self, k):
            return getattr(self._fh, k)

        def __enter__(self):
            self._fh.__enter__()
            return self

        def __exit__(self, *a):
            return self._fh.__exit__(*a)

        def __iter__(self):
            return iter(self._fh)

    def faulty_open(file, mode="r", *a, **kw):
        fh = _bi.open(file, mode, *a, **kw)
        vc = VC
        if vc is None or cur_actor() is None or not any(c in mode for c in "wa") \
                or os.path.basename(str(file)) != "processed_results.csv":
            return fh
        site = "fwrite:processed_results.csv"
        n = vc.fault_counter[site] = vc.fault_counter.get(site, 0) + 1
        vc.emit("site", site=site, n=n, mode=mode)
        try:
            vc.yield_point()
        except BaseException:
            fh.close()
            raise
        spec = vc.faults.get("write_error")
        if spec and spec[0] == site and spec[1] == n:
            vc.fired.append(("write_error", site, n))
            vc.emit("write_error", site=site)
            return _FailingWrites(fh)
        return fh
    ra.open = faulty_open

    def after_append_inner(args, kw, res, exc):
        self = args[0]
        r = getattr(cur_actor(), "pending_row", None)
        m = re.search(r"results_batch_(\d+)\.csv", self._filename.name)
        VC.emit("append", ok=exc is None, batch=int(m.group(1)) if m else None, job=r.name if r else None,
                rc=r.return_code if r else None,
                status=(r.status.value if hasattr(r.status, "value") else str(r.status)) if r else None,
                hpc_id=r.hpc_job_id if r else None)
    _wrap_method(ResultsAggregator, "_append_result", after=after_append_inner)

    def after_cancel_job(args, kw, res, exc):
        if exc is None:
            VC.emit("sub_cancel", job=args[1].name)
    _wrap_method(hs.HpcSubmitter, "_cancel_job", after=after_cancel_job)

    def after_is_complete(args, kw, res, exc):
        VC.emit("check_complete", result=bool(res) if exc is None else None)
    _wrap_method(hs.HpcSubmitter, "_is_complete", after=after_is_complete)

    # the scan of a finished job's output directory can fail (a dangling link, a file that vanishes): fault site
    _orig_dir_size = acc.get_directory_size_bytes

    def dir_size(directory, *a, **kw):
        vc = VC
        name = os.path.basename(str(directory))
        if vc is not None and cur_actor() is not None and vc.faults.get("scan_error") == name and ("scan_error", name) not in vc.fired:
            vc.fired.append(("scan_error", name))
            vc.emit("scan_error", job=name)
            raise FileNotFoundError(2, "No such file or directory", os.path.join(str(directory), "dangling-link"))
        return _orig_dir_size(directory, *a, **kw)
    acc.get_directory_size_bytes = dir_size

    # reading a node result file is a step other processes can interleave with, whether or not a lock is held
    def after_get_results(args, kw, res, exc):
        self = args[0]
        if exc is None and self._filename.name.startswith("results_batch"):
            VC.emit("site", site="read:" + self._filename.name, n=0)
            VC.yield_point()
    _wrap_method(ResultsAggregator, "_get_results", after=after_get_results)

    # _submit_batches has no yield point: a loop that never ends would hang the whole check.  Turn it into an error.
    def before_submit_batches(self, *a, **kw):          # whatever its signature becomes
        cur_actor().make_batch_calls = 0

    def before_make_batch(self, available_jobs, *a, **kw):
        a_ = cur_actor()
        a_.make_batch_calls = getattr(a_, "make_batch_calls", 0) + 1
        if a_.make_batch_calls > 10 * (len(available_jobs) + 5):
            VC.emit("livelock", where="_submit_batches")
            raise RuntimeError("livelock: HpcSubmitter._submit_batches keeps calling _make_batch without consuming a job")
    _wrap_method(hs.HpcSubmitter, "_submit_batches", before=before_submit_batches)
    _wrap_method(hs.HpcSubmitter, "_make_batch", before=before_make_batch)

    def before_run(self):
        VC.emit("round_begin", canceled=bool(self._cluster.is_canceled()), ids=list(self._cluster.iter_hpc_job_ids()),
                index=self._batch_index)
    def after_run(args, kw, res, exc):
        VC.emit("round_end", ok=exc is None, complete=bool(res) if exc is None else None,
                error=(type(exc).__name__ + ": " + str(exc)[:80]) if exc else None)
    _wrap_method(hs.HpcSubmitter, "run", before=before_run, after=after_run)

    def after_summary(args, kw, res, exc):
        vc = VC
        out = args[0]._output
        data = None
        try:
            data = json.load(open(os.path.join(out, args[1])))
        except Exception:  # noqa
            pass
        vc.emit("results_summary", ok=exc is None, missing=list(args[2]),
                results=[[r["name"], r["return_code"], r["status"]] for r in (data or {}).get("results", [])],
                summary=(data or {}).get("results_summary"))
    _wrap_method(JobSubmitter, "write_results_summary", after=after_summary)

    def before_dump(data, filename, **kw):
        if cur_actor() is not None and re.search(r"_batch_\d+\.json$", str(filename)):
            VC.fault_point("write:batch_config")
    orig_dump = hs.dump_data
    def dump_wrapper(data, filename, **kw):
        before_dump(data, filename, **kw)
        return orig_dump(data, filename, **kw)
    hs.dump_data = dump_wrapper
    orig_touch = Path.touch
    def touch_wrapper(self, *a, **kw):
        if cur_actor() is not None and self.name == hs.HpcSubmitter.LOCK_FILENAME:
            VC.fault_point("write:marker_touch")
            r = orig_touch(self, *a, **kw)
            VC.emit("marker_touch")
            return r
        return orig_touch(self, *a, **kw)
    Path.touch = touch_wrapper
    orig_exists = Path.exists
    def exists_wrapper(self):
        r = orig_exists(self)
        if r and cur_actor() is not None and self.name == hs.HpcSubmitter.LOCK_FILENAME:
            VC.emit("marker_found")
        return r
    Path.exists = exists_wrapper

    # node-level unblocking (C02): a name leaves a queued job's blocking set
    from jade.jobs.job_parameters_interface import JobParametersInterface  # noqa
    from jade.extensions.generic_command.generic_command_parameters import GenericCommandParameters
    def after_remove_blocking(args, kw, res, exc):
        a = cur_actor()
        if a is not None and a.proc.kind == "node":
            VC.emit("unblock", job=args[0].name, blocker=args[1])
    _wrap_method(GenericCommandParameters, "remove_blocking_job", after=after_remove_blocking)
    def after_run_jobs(args, kw, res, exc):
        pass
    def before_queue_submit(self, job):
        a = cur_actor()
        if a is not None and a.proc.kind in ("node", "login") and isinstance(job, acc.AsyncCliCommand):
            VC.emit("node_queue", job=job.name, blocked_by=sorted(job.get_blocking_jobs()), depth=self._queue_depth)
    _wrap_method(jq.JobQueue, "submit", before=before_queue_submit)


# =================================================================================================
class VirtualCluster:
    """One submission (or pipeline) in one temp directory."""

    def __init__(self, scenario, seed=0, schedule=None, strategy="random", break_stale=False, faults=None,
                 keep=False):
        install()
        self.sc = scenario
        self.rng = random.Random(seed)
        self.seed = seed
        self.replay = list(schedule) if schedule is not None else None
        self.strategy = strategy
        self.break_stale = break_stale
        self.faults = dict(faults or {})     # see fault_point / choices
        self.keep = keep
        self.tmp = tempfile.mkdtemp(prefix="vc_")
        self.output = os.path.join(self.tmp, "output")
        self.scratch = os.path.join(self.tmp, "scratch")
        os.makedirs(self.scratch)
        self.base_env = {k: v for k, v in os.environ.items() if not k.startswith("SLURM_")}
        self.actors = []
        self.cur = None
        self.last_actor = None
        self.baton = threading.Event()
        self.trace = []
        self.choices_made = []
        self.locks = {}
        self.dead_pids = set()
        self.next_pid = 1
        self.next_id = 100
        self.hpc = {}
        self.rc = {j["name"]: j.get("rc", 0) for j in scenario["jobs"]}
        self.finished = set()
        self.running = {}
        self.live = {}
        self.launches = []
        self.popens = {}
        self.sbatch_calls = 0
        self.sbatch_fail = set(scenario.get("sbatch_fail", []))   # 1-based call numbers that fail
        self.squeue_failures = 0
        self.pending_lock_timeout = set()
        self.hook_commands = {"hook-setup": "setup", "hook-teardown": "teardown", "hook-node-setup": "node_setup",
                              "hook-node-teardown": "node_teardown"}
        self.hook_rc = dict((self.sc.get("hooks_rc") or {}))      # which -> exit code of the hook command (default 0)
        self.pipeline_next = None
        self.fault_counter = {}
        self.fired = []
        self.last_snapshot = None
        self.stuck = []
        self.steps = 0
        self.max_steps = scenario.get("max_steps", 6000)
        self.node_cpus = scenario.get("node_cpus", 4)
        self._config = None

    # ---- trace ----------------------------------------------------------------------------------
    def emit(self, kind, **payload):
        a = cur_actor()
        ev = {"k": kind, "p": a.proc.pid if a else 0}
        if a is not None and a.proc.batch is not None:
            ev["node"] = a.proc.batch
        if a is not None:
            ev["pk"] = a.proc.kind          # kind of the emitting process: node | try | login | user | cancel | ...
        ev.update(payload)
        self.trace.append(ev)

    def observe(self):
        """status through the public API at an instant when the cluster lock is free"""
        try:
            snap = self.read_snapshot()
        except Exception as e:  # noqa
            snap = {"error": type(e).__name__}
        if snap != self.last_snapshot:
            self.last_snapshot = snap
            snap = dict(snap)
            if "error" not in snap:
                try:
                    snap["rows"] = self.row_names_on_disk()     # result rows on disk at the same instant
                except Exception:   # noqa  (a file being rewritten)
                    pass
            self.trace.append({"k": "observe", "p": 0, "snapshot": snap})

    def read_snapshot(self):
        cfgf = os.path.join(self.output, Cluster.CLUSTER_CONFIG_FILE)
        jsf = os.path.join(self.output, Cluster.JOB_STATUS_FILE)
        c = json.load(open(cfgf))
        s = json.load(open(jsf))
        vers = []
        for f in (Cluster.CONFIG_VERSION_FILE, Cluster.JOB_STATUS_VERSION_FILE):
            try:
                vers.append(int(open(os.path.join(self.output, f)).read().strip()))
            except Exception:  # noqa
                vers.append(None)
        return {"num": c["num_jobs"], "submitted": c["submitted_jobs"], "completed": c["completed_jobs"],
                "complete": c["is_complete"], "canceled": c["is_canceled"], "submitter": c["submitter"],
                "cver": c["version"], "jver": s["version"], "cver_file": vers[0], "jver_file": vers[1],
                "ids": list(s["hpc_job_ids"]), "index": s["batch_index"],
                "jobs": [[j["name"], j["state"], sorted(j["blocked_by"])] for j in s["jobs"]]}

    def row_names_on_disk(self):
        names = []
        files = [os.path.join(self.output, "processed_results.csv")] + sorted(glob.glob(os.path.join(self.output, "results", "results_batch_*.csv")))
        import csv
        for f in files:
            try:
                with open(f) as fh:
                    for row in csv.DictReader(fh):
                        names.append(row["name"])
            except FileNotFoundError:
                pass
        return sorted(names)

    def active_ids(self):
        return sorted(i for i, b in self.hpc.items() if b["state"] in ("PENDING", "RUNNING", "SUSPENDED"))

    def describe_batch(self, script):
        """what a submission script would run: parsed back from the real files"""
        ds, runsh, _ = jadeenv.parse_submission_script(script)
        info = {"script": os.path.basename(script), "directives": ds, "index": None, "jobs": [], "group": None, "run": None,
                "commands": len([l for l in _.split("\n")[1:] if l.strip() and not l.startswith("#")])}
        if runsh and os.path.exists(runsh):
            r = jadeenv.parse_run_script(runsh)
            info["run"] = {k: r.get(k) for k in ("output", "distributed", "nproc", "verbose")}
            cf = r.get("config_file")
            m = re.search(r"_batch_(\d+)\.json$", cf or "")
            if m:
                info["index"] = int(m.group(1))
                data = json.load(open(cf))
                info["jobs"] = [[j["name"], sorted(str(b) for b in j.get("blocked_by", []))] for j in data["jobs"]]
                groups = sorted({j.get("submission_group") for j in data["jobs"]})
                info["group"] = groups[0] if len(groups) == 1 else groups
        return info

    def next_sbatch_ok(self):
        self.sbatch_calls += 1
        return self.sbatch_calls not in self.sbatch_fail

    # ---- faults ---------------------------------------------------------------------------------
    def fault_point(self, site):
        """write/append sites: counted; an injected OSError fires at the n-th occurrence of a site"""
        a = cur_actor()
        if a is None:
            return
        n = self.fault_counter[site] = self.fault_counter.get(site, 0) + 1
        self.emit("site", site=site, n=n)
        self.yield_point()
        spec = self.faults.get("write_error")
        if spec and spec[0] == site and spec[1] == n:
            self.fired.append(("write_error", site, n))
            self.emit("write_error", site=site)
            raise OSError(122, "Disk quota exceeded")

    # ---- processes ------------------------------------------------------------------------------
    def spawn(self, kind, fn, host="login1", env=None, batch=None):
        p = Proc(self.next_pid, kind, host, dict(env or self.base_env), batch=batch)
        self.next_pid += 1
        a = Actor(self, p, fn)
        self.actors.append(a)
        self.trace.append({"k": "spawn", "p": p.pid, "kind": kind, "host": host, "batch": batch})
        a.thread.start()
        return a

    def run_child(self, kind, fn):
        a = cur_actor()
        parent = a.proc
        p = Proc(self.next_pid, kind, parent.host, dict(parent.env), parent=parent.pid, batch=parent.batch)
        self.next_pid += 1
        self.emit("spawn_child", child=p.pid, ckind=kind)
        a.stack.append(p)
        code = 0
        try:
            self.yield_point()
            fn()
        except SystemExit as e:
            code = e.code if isinstance(e.code, int) else (0 if e.code is None else 1)
        except Killed:
            raise
        except Exception as e:  # noqa  (a child process crashing returns non-zero to its parent)
            self.emit("proc_error", error=type(e).__name__, msg=str(e)[:120])
            code = 1
        finally:
            self.emit("exit", code=code)
            a.stack.pop()
        return code

    def _actor_finished(self, a):
        p = a.stack[0]
        ev = {"k": "exit", "p": p.pid, "code": a.exit_code}
        if a.exc is not None:
            ev["error"] = type(a.exc).__name__
            ev["msg"] = str(a.exc)[:160]
        self.trace.append(ev)
        if p.kind == "node" and p.batch in self.hpc and self.hpc[p.batch]["state"] in ("RUNNING", "SUSPENDED"):
            self.hpc[p.batch]["state"] = "GONE"
            self.trace.append({"k": "batch_end", "p": 0, "id": p.batch})

    def kill_actor(self, a, why="kill"):
        a.killed = True
        for p in a.stack:
            self.dead_pids.add(p.pid)
        self.trace.append({"k": "kill", "p": a.stack[0].pid, "pids": [p.pid for p in a.stack], "why": why})
        for name, node in list(self.running.items()):
            if node is a and name not in self.finished:
                self.running.pop(name)
        self.live.pop(a.label, None)

    def kill_batch(self, hpc_id, why="scancel"):
        for a in self.actors:
            if not a.done and not a.killed and a.stack[0].kind == "node" and a.stack[0].batch == hpc_id:
                self.kill_actor(a, why)

    # ---- scheduling -----------------------------------------------------------------------------
    def yield_point(self):
        a = cur_actor()
        if a is None:
            return
        self.baton.set()
        a.go.wait()
        a.go.clear()
        if a.killed:
            raise Killed()
        os.environ.clear()
        os.environ.update(a.proc.env)
        if getattr(a, "interrupt", False):
            # SIGINT (Ctrl-C) delivered to the process: KeyboardInterrupt is raised where it stands; `finally` blocks and
            # `except BaseException` handlers run, `except Exception` handlers do not
            a.interrupt = False
            self.trace.append({"k": "interrupt", "p": a.proc.pid})
            raise KeyboardInterrupt()

    def _runnable(self, a):
        if a.done or a.killed:
            return False
        if a.stack[0].kind == "node" and self.hpc.get(a.stack[0].batch, {}).get("state") == "SUSPENDED":
            return False
        if a.waiting_lock is not None and os.path.exists(a.waiting_lock):
            holder = self.locks.get(a.waiting_lock)
            if self.break_stale and (holder is None or holder in self.dead_pids):
                return True
            if a.proc.pid in self.pending_lock_timeout:
                return True
            return False
        if a.sleeping and not a.dirty:
            return False
        return True

    def _start_batch(self, i):
        b = self.hpc[i]
        b["state"] = "RUNNING"
        ds, runsh, text = jadeenv.parse_submission_script(b["script"])
        # the node executes every command line of the script, in order (jade writes exactly one: srun <run script>)
        runs = [jadeenv.parse_run_script(x) for x in re.findall(r"^srun (\S+)$", text, re.M) if os.path.exists(x)]
        r = runs[0] if runs else jadeenv.parse_run_script(runsh)
        env = dict(self.base_env, SLURM_JOB_ID=str(i), SLURM_NODEID="0", SLURM_CPUS_ON_NODE=str(self.node_cpus),
                   LOCAL_SCRATCH=self.scratch)
        self.trace.append({"k": "batch_start", "p": 0, "id": i, "index": b["index"]})

        def fn():
            for q in (runs or [r]):
                try:
                    rj.run_jobs.callback(config_file=q["config_file"], distributed_submitter=bool(q["distributed"]),
                                         output=q["output"], num_parallel_processes_per_node=q["nproc"], verbose=False)
                except SystemExit as e:
                    if q is (runs or [r])[-1]:
                        raise
                    if e.code not in (0, None):
                        pass        # bash goes on with the next command line whatever the exit status
        self.spawn("node", fn, host="node%s" % i, env=env, batch=i)

    def choices(self):
        ch = []
        for a in self.actors:
            if self._runnable(a):
                ch.append(("run:" + a.label, a))
        for i, b in self.hpc.items():
            if b["state"] == "PENDING":
                ch.append(("start:" + i, i))
        for name in sorted(self.running):
            if name not in self.finished:
                ch.append(("finish:" + name, name))
        return ch

    def _pick(self, ch):
        labels = [c[0] for c in ch]
        if self.replay is not None:
            while self.replay:
                want = self.replay.pop(0)
                if want in labels:
                    return ch[labels.index(want)]
                if want.startswith(("kill:", "timeout:", "locktimeout:", "squeuefail:")):
                    return (want, None)
            self.replay = None
        s = self.strategy
        order = self.faults.get("finish_order")
        if order:
            # directed schedules: a job's process does not end before the jobs listed before it have ended
            def held(c):
                if not c[0].startswith("finish:"):
                    return False
                n = c[0].split(":", 1)[1]
                return n in order and any(m not in self.finished for m in order[:order.index(n)])
            keep = [c for c in ch if not held(c)]
            if keep:
                ch = keep
        if s == "random":
            return self.rng.choice(ch)
        if s == "fail_first":
            # failing jobs end as early as possible, the others as late as possible: a failure then meets as
            # many queued dependents as possible
            fin = [c for c in ch if c[0].startswith("finish:")]
            bad = [c for c in fin if self.rc.get(c[0].split(":", 1)[1], 0) != 0]
            if bad and self.rng.random() < 0.9:
                return self.rng.choice(bad)
            other = [c for c in ch if not c[0].startswith("finish:")]
            if other and self.rng.random() < 0.9:
                return self.rng.choice(other)
        runs = [c for c in ch if c[0].startswith("run:")]
        env = [c for c in ch if not c[0].startswith("run:")]
        if s == "actors_first" and runs:
            return self.rng.choice(runs)
        if s == "env_first" and env:
            return self.rng.choice(env)
        if s == "nodes_first":
            nodes = [c for c in runs if c[1].stack[0].kind == "node"]
            if nodes and self.rng.random() < 0.8:
                return self.rng.choice(nodes)
        if s == "submitter_first":
            subs = [c for c in runs if c[1].stack[0].kind != "node"]
            if subs and self.rng.random() < 0.8:
                return self.rng.choice(subs)
        if s == "sticky" and runs and self.last_actor is not None:
            same = [c for c in runs if c[1] is self.last_actor]
            if same and self.rng.random() < 0.85:
                return same[0]
        if s == "gap_hunter" and self.trace:
            # a submitter round (on the login node or as a node's try-submit-jobs child) has just read a node result
            # file or taken / released its lock: hold that process back for a while and let the other nodes run and
            # their jobs end in that window
            last = self.trace[-1]
            if ((last.get("k") in ("release", "acquire") and str(last.get("lock", "")).startswith("results_batch"))
                    or (last.get("k") == "site" and str(last.get("site", "")).startswith("read:results_batch"))) and last.get("pk") != "node":
                self.gap_hold = [last.get("p"), 14]
            hold = getattr(self, "gap_hold", None)
            if hold and hold[1] > 0:
                hold[1] -= 1
                nodes = [c for c in runs if c[1].stack[0].kind == "node" and c[1].proc.pid != hold[0]] + [c for c in ch if c[0].startswith("finish:")]
                if nodes and self.rng.random() < 0.85:
                    return self.rng.choice(nodes)
            else:
                # outside such a window jobs end late, so that some are still running when the next window opens
                other = [c for c in ch if not c[0].startswith("finish:")]
                if other and self.rng.random() < 0.8:
                    return self.rng.choice(other)
        if s == "collect_gap":
            # between a round's result collection and its next step, let the nodes run on
            for ev in reversed(self.trace[-40:]):
                if ev.get("k") in ("squeue", "marker_touch", "round_end") and ev.get("pk") != "node":
                    break
                if ev.get("k") == "collect" and ev.get("pk") != "node":
                    nodes = [c for c in runs if c[1].stack[0].kind == "node" and c[1].proc.pid != ev.get("p")] + [c for c in ch if c[0].startswith("finish:")]
                    if nodes and self.rng.random() < 0.9:
                        return self.rng.choice(nodes)
                    break
        if s == "slow_finish":
            other = [c for c in ch if not c[0].startswith("finish:")]
            if other and self.rng.random() < 0.85:
                return self.rng.choice(other)
        return self.rng.choice(ch)

    def _fault_choice(self, ch):
        """scheduled faults (kill / batch timeout / lock timeout / squeue failure) fire at a given step"""
        f = self.faults
        out = None
        if "kill_at" in f and self.steps == f["kill_at"][1]:
            out = ("kill:" + f["kill_at"][0], None)
        return out

    def run(self, until=None):
        """Run until nothing is enabled (or `until()` holds).  Returns the list of stuck actors."""
        global VC
        VC = self
        saved_env = dict(os.environ)
        saved_out = sys.stdout, sys.stderr
        sys.stdout = sys.stderr = _DEVNULL
        try:
            while True:
                if until is not None and until():
                    break
                ch = self.choices()
                if not ch:
                    # everything left is blocked on a lock nobody will release: real filelock would time out
                    blocked = [a for a in self.actors if not a.done and not a.killed and a.waiting_lock
                               and not (a.stack[0].kind == "node" and self.hpc.get(a.stack[0].batch, {}).get("state") == "SUSPENDED")]
                    if blocked:
                        a = blocked[0]
                        self.pending_lock_timeout.add(a.proc.pid)
                        self.trace.append({"k": "deadlock_timeout", "p": a.proc.pid, "lock": os.path.basename(a.waiting_lock)})
                        continue
                    break
                self.steps += 1
                if self.steps > self.max_steps:
                    self.trace.append({"k": "step_limit", "p": 0})
                    break
                label, x = self._apply_scheduled_faults(ch) or self._pick(ch)
                self.choices_made.append(label)
                kind = label.split(":", 1)[0]
                if kind == "run":
                    self._resume(x)
                elif kind == "start":
                    self._start_batch(x)
                elif kind == "finish":
                    self.finished.add(x)
                    node = self.running.get(x)
                    if node is not None:
                        node.dirty = True
                    self.trace.append({"k": "job_end", "p": 0, "job": x, "rc": self.rc.get(x, 0)})
                elif kind == "kill":
                    target = label.split(":", 1)[1]
                    for a in self.actors:
                        if a.label == target and not a.done and not a.killed:
                            self.kill_actor(a)
                            if a.stack[0].kind == "node" and a.stack[0].batch in self.hpc:
                                self.hpc[a.stack[0].batch]["state"] = "GONE"
                                self.trace.append({"k": "batch_end", "p": 0, "id": a.stack[0].batch, "why": "killed"})
                elif kind == "timeout":
                    i = label.split(":", 1)[1]
                    if i in self.hpc and self.hpc[i]["state"] in ("PENDING", "RUNNING"):
                        self.kill_batch(i, "timeout")
                        self.hpc[i]["state"] = "GONE"
                        self.trace.append({"k": "batch_end", "p": 0, "id": i, "why": "timeout"})
                elif kind == "squeuefail":
                    self.squeue_failures += int(label.split(":", 1)[1])
                elif kind == "locktimeout":
                    target = label.split(":", 1)[1]
                    for a in self.actors:
                        if a.label == target:
                            self.pending_lock_timeout.add(a.proc.pid)
            self.stuck = [a.label for a in self.actors if not a.done and not a.killed]
            return self.stuck
        finally:
            sys.stdout, sys.stderr = saved_out
            os.environ.clear()
            os.environ.update(saved_env)

    def _apply_scheduled_faults(self, ch):
        f = self.faults
        for key, lab in (("kill", "kill"), ("timeout", "timeout"), ("squeuefail", "squeuefail"), ("locktimeout", "locktimeout")):
            spec = f.get(key)
            if spec and not spec.get("done") and self._fault_due(spec):
                spec["done"] = True
                self.fired.append((key, spec))
                return (f"{lab}:{spec['target']}", None)
        return None

    def _fault_due(self, spec):
        """spec: {target, after: {k: kind, n: occurrence, p?: pid-kind}} -> fires right after that event"""
        aft = spec.get("after")
        if aft is None:
            return self.steps >= spec.get("step", 0)
        cnt = 0
        for ev in self.trace:
            if ev["k"] == aft["k"] and all(ev.get(kk) == vv for kk, vv in aft.get("match", {}).items()):
                cnt += 1
                if cnt >= aft.get("n", 1):
                    return True
        return False

    def _resume(self, a):
        self.cur = a
        os.environ.clear()
        os.environ.update(a.proc.env)
        self.baton.clear()
        a.go.set()
        self.baton.wait()
        self.cur = None
        self.last_actor = a

    # ---- entry points ----------------------------------------------------------------------------
    def config(self):
        if self._config is None:
            self._config = jadeenv.make_config(self.sc)
        return self._config

    def submit(self, local=False, stage=None):
        cfg = self.config()
        out = self.output
        return self.spawn("login", lambda: sys.exit(JobSubmitter.run_submit_jobs(cfg, out, local=local, pipeline_stage_num=stage)))

    def try_submit(self, host="login1"):
        out = self.output
        return self.spawn("user", lambda: tsj.try_submit_jobs.callback(output=out, verbose=False), host=host)

    def cancel(self, complete=True, host="login1"):
        out = self.output
        return self.spawn("cancel", lambda: cj.cancel_jobs.callback(output=out, complete=complete, verbose=False), host=host)

    def resubmit(self, failed=True, missing=True, successful=False, host="login1"):
        out = self.output
        return self.spawn("resubmit", lambda: rsj.resubmit_jobs.callback(
            output=out, failed=failed, missing=missing, successful=successful, submission_groups_file=None, verbose=False), host=host)

    def status(self):
        try:
            return self.read_snapshot()
        except Exception as e:  # noqa
            return {"error": type(e).__name__, "complete": False}

    def final_results(self):
        """(results {name: (rc, status)}, missing) from results.json as the submission wrote it"""
        f = os.path.join(self.output, "results.json")
        if not os.path.exists(f):
            return None
        d = json.load(open(f))
        return {r["name"]: (r["return_code"], r["status"]) for r in d["results"]}, list(d["missing_jobs"]), d.get("results_summary")

    def close(self):
        global VC
        for a in self.actors:   # let abandoned threads die
            if not a.done:
                a.killed = True
                a.go.set()
        if VC is self:
            VC = None
        if not self.keep:
            shutil.rmtree(self.tmp, ignore_errors=True)


def run_to_quiescence(vc, max_recoveries=14, recovery=True):
    """submit, run until nothing moves; while incomplete and nothing active: the documented
    `jade try-submit-jobs` recovery.  Returns number of recovery rounds used."""
    vc.run()
    rec = 0
    while recovery and rec < max_recoveries:
        st = vc.status()
        if st.get("complete") or vc.stuck or "error" in st:
            break
        if any(a.exc is not None for a in vc.actors):
            break
        vc.trace.append({"k": "quiescent", "p": 0, "snapshot": st, "active": vc.active_ids()})
        vc.try_submit()
        vc.run()
        rec += 1
    return rec
