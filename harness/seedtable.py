"""Coordinator tool: regenerate DESIGN.md section 10.8 from seeded/*/meta.json"""
import json, glob, os, re
rows = []
for d in sorted(glob.glob("/verif/seeded/*/")):
    m = json.load(open(d + "meta.json"))
    det = m.get("detection") or {}
    notes = m.get("needs_to_manifest", "")
    first = ""
    mm = re.search(r"(?is)(needs?[^\n]*manifest[^\n]*\n+)(.*?)(\n\n|\Z)", notes)
    sig = "; ".join(det.get("violations", [])[:3])
    verdict = "caught (concrete input)" if det.get("exit") == 1 and det.get("concrete") else ("caught (no-failing-input-found)" if det.get("exit") == 1 else "MISSED")
    oth = m.get("detection_other")
    if verdict == "MISSED" and oth and oth.get("concrete"):
        verdict = "MISSED by its own check; caught (concrete input) by `" + oth["check"] + "`"
        sig = "; ".join(oth.get("violations", [])[:3])
    rows.append(f"| {m['id']} | {m['property']} | {verdict} | {sig[:140]} |")
table = "### 10.8 Seeded changes (from `seeded/*/meta.json`; regenerate with `harness/seedtable.py`)\n\n" \
        "Each change was written by an independent sub-agent that saw only the property text and a scratch worktree, compiles, keeps the\n" \
        "125 pinned tests green, and comes with a demonstration that fails with it and passes without (re-confirmed by `harness/seedverify.py`).\n" \
        "`harness/seeddetect.py` applies each to /repo, runs the property's quick check and undoes it.\n\n" \
        "| seeded change | property | verdict of `./check <property> --tier quick` | signatures |\n|---|---|---|---|\n" + "\n".join(rows) + "\n\n"
p = "/verif/DESIGN.md"
s = open(p).read()
if "### 10.8 Seeded changes" in s:
    s = re.sub(r"(?s)### 10\.8 Seeded changes.*?(?=### 10\.9 |---------------------------------------------------------------------------------------------------\n\n## Appendix A)", lambda m: table, s)
else:
    s = s.replace("---------------------------------------------------------------------------------------------------\n\n## Appendix A", table + "---------------------------------------------------------------------------------------------------\n\n## Appendix A")
open(p, "w").write(s)
print(len(rows), "rows")
