"""Driver for C13: builds REAL completed JADE submissions on disk without a scheduler and runs the
real `resubmit-jobs` command (and its helpers) on them.

What is real: JobSubmitter.create/load/submit_jobs/_handle_completion/write_results_summary,
Cluster (all of it, real SoftFileLock), HpcSubmitter.run (batching, status updates, cancellation),
ResultsAggregator (node files, processed_results.csv), the CLI callbacks run_jobs / try_submit_jobs /
resubmit_jobs, JobRunner + JobQueue + AsyncCliCommand on the "node", EventsSummary (creates `events/`).

What is replaced (OS / HPC boundary only):
  * jade.hpc.slurm_manager.run_command  -> scripted sbatch / squeue / scancel (real text formats)
  * subprocess.Popen inside async_cli_command -> a job process that ends at once with the scripted
    return code, or "kills the node" (all unfinished jobs of the batch get no result = missing)
  * run_command("jade try-submit-jobs ..") inside cli/run_jobs -> the real try_submit_jobs callback
  * run_command("jade show-results ..." etc.) inside job_submitter (report generation): answered
    with rc 0; "jade show-events" additionally runs the real EventsSummary, which is what creates the
    `events` directory when reports are enabled
  * time.sleep in job_queue
A compute node is run synchronously (the scheduler starts pending batches one at a time, oldest
first or in a seeded random order).
"""
import json
import logging
import os
import re
import shutil
import sys
import types
import time as _time
from contextlib import contextmanager
from pathlib import Path

from harness import jadeenv


class NodeKilled(BaseException):
    """The batch's node dies (wall-time limit, crash): propagates out of the real run_jobs."""


class World:
    """One output directory + scripted HPC + scripted job outcomes."""

    def __init__(self, out, outcome, rng=None):
        self.out = out
        self.outcome = outcome          # f(job_name, attempt_no) -> int rc | "die"
        self.attempts = {}              # job name -> number of launches so far
        self.launches = []              # (epoch, job name) in launch order
        self.finishes = []              # (epoch, job name, rc)
        self.events = []                # (epoch, 'launch'|'finish', job name) in real order
        self.epoch = 0
        self.batches = {}               # hpc id -> dict(script=..., state=PENDING|RUNNING|GONE)
        self.next_id = 100
        self.sbatch_log = []            # (epoch, id, script)
        self.rng = rng
        self.sbatch_fail = 0            # upcoming sbatch calls that fail
        self.node_errors = []
        self.killed = []                # (epoch, [job names of the batch whose node died])

    # --- HPC executables
    def slurm(self, cmd, output=None, **kw):
        cmd = str(cmd)
        if cmd.startswith("sbatch"):
            if self.sbatch_fail > 0:
                self.sbatch_fail -= 1
                if output is not None:
                    output["stdout"] = ""
                    output["stderr"] = "sbatch: error: Batch job submission failed: Socket timed out"
                return 1
            i = str(self.next_id)
            self.next_id += 1
            self.batches[i] = {"script": cmd.split()[1], "state": "PENDING"}
            self.sbatch_log.append((self.epoch, i, cmd.split()[1]))
            if output is not None:
                output["stdout"] = f"Submitted batch job {i}\n"
                output["stderr"] = ""
            return 0
        if cmd.startswith("squeue"):
            lines = [f"{i:<20}{b['state']:<20}" for i, b in self.batches.items() if b["state"] in ("PENDING", "RUNNING")]
            if output is not None:
                output["stdout"] = "\n".join(lines) + ("\n" if lines else "")
                output["stderr"] = ""
            return 0
        if cmd.startswith("scancel"):
            i = cmd.split()[1]
            if i in self.batches and self.batches[i]["state"] in ("PENDING", "RUNNING"):
                self.batches[i]["state"] = "GONE"
            return 0
        raise RuntimeError("unexpected HPC command: " + cmd)

    def order_log(self, epoch):
        return [(k, n) for e, k, n in self.events if e == epoch]

    def killed_jobs(self, epoch):
        return {n for e, ns in self.killed if e == epoch for n in ns}

    def pending(self):
        return [i for i, b in self.batches.items() if b["state"] == "PENDING"]


WORLD = None   # the World the patched boundaries talk to


class _FakePopen:
    def __init__(self, cmd, env=None, **kw):
        w = WORLD
        self.name = env["JADE_JOB_NAME"]
        self.pid = 4242
        self.returncode = None
        k = w.attempts.get(self.name, 0)
        w.attempts[self.name] = k + 1
        w.launches.append((w.epoch, self.name))
        w.events.append((w.epoch, "launch", self.name))
        self._oc = w.outcome(self.name, k)

    def poll(self):
        if self._oc == "die":
            raise NodeKilled(self.name)
        self.returncode = int(self._oc)
        WORLD.finishes.append((WORLD.epoch, self.name, self.returncode))
        WORLD.events.append((WORLD.epoch, "finish", self.name))
        return self.returncode


@contextmanager
def patched():
    """Install the boundary stand-ins; restore everything afterwards."""
    import jade.hpc.slurm_manager as sm
    import jade.jobs.job_submitter as js
    import jade.jobs.async_cli_command as acc
    import jade.cli.run_jobs as rj
    import jade.cli.try_submit_jobs as tsj
    import jade.jobs.job_queue as jq
    import jade.loggers as jl

    saved = [(sm, "run_command", sm.run_command), (js, "run_command", js.run_command),
             (js, "check_run_command", js.check_run_command),
             (js.JobSubmitter, "_save_repository_info", js.JobSubmitter._save_repository_info),
             (acc, "subprocess", acc.subprocess), (rj, "run_command", rj.run_command), (jq, "time", jq.time)]

    def slurm(cmd, output=None, **kw):
        return WORLD.slurm(cmd, output, **kw)

    def js_run_command(cmd, output=None, **kw):
        cmd = str(cmd)
        if isinstance(output, dict):
            output["stdout"] = ""
            output["stderr"] = ""
        if cmd.startswith("jade show-events"):
            from jade.events import EventsSummary
            m = re.search(r"-o (\S+)", cmd)
            EventsSummary(m.group(1))
        return 0

    def rj_run_command(cmd, *a, **kw):
        out = str(cmd).split()[2]
        try:
            tsj.try_submit_jobs.callback(output=out, verbose=False)
        except SystemExit as e:
            return e.code or 0
        return 0

    sm.run_command = slurm
    js.run_command = js_run_command
    js.check_run_command = lambda *a, **k: 0
    js.JobSubmitter._save_repository_info = lambda self, reg: None
    acc.subprocess = types.SimpleNamespace(Popen=_FakePopen)
    rj.run_command = rj_run_command
    jq.time = types.SimpleNamespace(sleep=lambda s: None, time=_time.time)
    env_saved = dict(os.environ)
    try:
        yield
    finally:
        for obj, name, val in saved:
            setattr(obj, name, val)
        os.environ.clear()
        os.environ.update(env_saved)
        _close_log_handlers()


def _close_log_handlers():
    """the CLI callbacks install file handlers per call; close them so that descriptors do not pile up"""
    for name in list(logging.root.manager.loggerDict) + [None]:
        lg = logging.getLogger(name)
        for h in list(lg.handlers):
            if isinstance(h, logging.FileHandler):
                try:
                    h.close()
                except Exception:
                    pass
                lg.removeHandler(h)


def use(world):
    global WORLD
    WORLD = world
    return world


# ------------------------------------------------------------------------------------------------
def run_node(world, hpc_id):
    """Run the real `jade-internal run-jobs` of one batch synchronously (it ends with the real
    try-submit-jobs).  A job whose outcome is "die" kills the node."""
    import jade.cli.run_jobs as rj
    b = world.batches[hpc_id]
    b["state"] = "RUNNING"
    _, runsh, _ = jadeenv.parse_submission_script(b["script"])
    info = jadeenv.parse_run_script(runsh)
    env_saved = dict(os.environ)
    os.environ.update({"SLURM_JOB_ID": hpc_id, "SLURM_NODEID": "0", "SLURM_CPUS_ON_NODE": "4",
                       "LOCAL_SCRATCH": world.out, "SLURM_CLUSTER_NAME": "vc"})
    try:
        try:
            rj.run_jobs.callback(config_file=info["config_file"], distributed_submitter=bool(info["distributed"]),
                                 output=info["output"], num_parallel_processes_per_node=info["nproc"] or 2,
                                 verbose=False)
        except SystemExit:
            pass
        except NodeKilled:
            try:
                world.killed.append((world.epoch, [j["name"] for j in json.load(open(info["config_file"]))["jobs"]]))
            except Exception as e:   # noqa
                world.node_errors.append(repr(e))
        finally:
            b["state"] = "GONE"
    finally:
        os.environ.clear()
        os.environ.update(env_saved)
        _close_log_handlers()


def try_submit(world):
    import jade.cli.try_submit_jobs as tsj
    try:
        tsj.try_submit_jobs.callback(output=world.out, verbose=False)
    except SystemExit as e:
        return e.code or 0
    finally:
        _close_log_handlers()
    return 0


def drain(world, max_rounds=200):
    """Let the scheduler start pending batches until the submission is complete.  Returns the
    number of manual try-submit-jobs calls that were needed (a user has to run it after a node died)."""
    from jade.jobs.cluster import Cluster
    manual = 0
    for _ in range(max_rounds):
        pend = world.pending()
        if pend:
            i = pend[0] if world.rng is None else world.rng.choice(pend)
            run_node(world, i)
            continue
        c, _p = Cluster.deserialize(world.out, deserialize_jobs=True)
        if c.is_complete():
            return manual
        manual += 1
        if manual > 30:
            raise RuntimeError("submission does not complete")
        try_submit(world)
    raise RuntimeError("drain: too many rounds")


def first_submission(world, sc):
    """jade submit-jobs (JobSubmitter.run_submit_jobs) + all nodes, until complete."""
    from jade.jobs.job_submitter import JobSubmitter
    cfg = jadeenv.make_config(sc)
    os.makedirs(world.out, exist_ok=True)
    ret = JobSubmitter.run_submit_jobs(cfg, world.out)
    _close_log_handlers()
    drain(world)
    return ret


def resubmit(world, failed=True, missing=True, successful=False, groups_file=None):
    """The real command.  -> ("exit", code) | ("exc", type name, text)"""
    import jade.cli.resubmit_jobs as rs
    world.epoch += 1
    try:
        rs.resubmit_jobs.callback(output=world.out, failed=failed, missing=missing, successful=successful,
                                  submission_groups_file=groups_file, verbose=False)
        res = ("exit", 0)
    except SystemExit as e:
        res = ("exit", e.code if e.code is not None else 0)
    except Exception as e:   # noqa
        res = ("exc", type(e).__name__, str(e)[:300])
    finally:
        _close_log_handlers()
    return res


# ------------------------------------------------------------------------------------------------
def snapshot(out):
    """What the property talks about, read back from disk through the real readers."""
    from jade.jobs.cluster import Cluster
    from jade.jobs.results_aggregator import ResultsAggregator
    c, _ = Cluster.deserialize(out, deserialize_jobs=True)
    cfg = c.config
    rows = [tuple(r) for r in ResultsAggregator.load(out).get_results_unsafe()]
    snap = {
        "submitter": cfg.submitter, "is_complete": cfg.is_complete, "is_canceled": cfg.is_canceled,
        "num_jobs": cfg.num_jobs, "submitted_jobs": cfg.submitted_jobs, "completed_jobs": cfg.completed_jobs,
        "jobs": [(j.name, j.state.value, sorted(j.blocked_by)) for j in c.iter_jobs()],
        "hpc_job_ids": list(c.job_status.hpc_job_ids),
        "rows": rows,
    }
    rj = os.path.join(out, "results.json")
    if os.path.exists(rj):
        data = json.load(open(rj))
        snap["results_json"] = [(r["name"], r["return_code"], r["status"]) for r in data["results"]]
        snap["missing_json"] = list(data["missing_jobs"])
    return snap


def config_jobs(out):
    """(name, sorted blockers) in the listing order of config.json, through the real loader."""
    from jade.jobs.job_configuration_factory import create_config_from_file
    cfg = create_config_from_file(Path(out) / "config.json")
    return [(j.name, sorted(j.get_blocking_jobs())) for j in cfg.iter_jobs()]
