"""Fail-closed translator: Python `ast` of /repo -> coq/theories/Gen/*.v.

Only *declarative* parts of the code are translated (tables, tuples, literals, f-string
templates, constants at call sites, simple boolean predicates).  Every extractor checks the exact
syntactic shape it expects and raises TranslateError otherwise: an unknown shape is a broken tie,
never a silent default.  The generated files are plain Coq definitions; the hand-written models
and the property theorems are stated over them, so they are re-checked against what the code
says now on every run.
"""
import ast
import os
import sys
from pathlib import Path

VERIF = Path(__file__).resolve().parent.parent
REPO = Path(os.environ.get("JADE_REPO", "/repo"))
GEN = VERIF / "coq" / "theories" / "Gen"


class TranslateError(Exception):
    pass


def fail(msg, node=None, file=None):
    loc = ""
    if file is not None:
        loc = f"{file}"
        if node is not None and hasattr(node, "lineno"):
            loc += f":{node.lineno}"
        loc += ": "
    raise TranslateError(loc + msg)


# ---- ast helpers --------------------------------------------------------------------------------
class Src:
    def __init__(self, rel):
        self.rel = rel
        self.path = REPO / rel
        try:
            self.text = self.path.read_text()
            self.tree = ast.parse(self.text)
        except (OSError, SyntaxError) as e:
            raise TranslateError(f"{rel}: cannot parse: {e}")

    def cls(self, name):
        for n in self.tree.body:
            if isinstance(n, ast.ClassDef) and n.name == name:
                return n
        fail(f"class {name} not found", file=self.rel)

    def func(self, name, cls=None):
        body = self.cls(cls).body if cls else self.tree.body
        for n in body:
            if isinstance(n, (ast.FunctionDef,)) and n.name == name:
                return n
        fail(f"function {cls + '.' if cls else ''}{name} not found", file=self.rel)

    def assign(self, name, cls=None):
        body = self.cls(cls).body if cls else self.tree.body
        for n in body:
            if isinstance(n, ast.Assign) and len(n.targets) == 1 and isinstance(n.targets[0], ast.Name) \
                    and n.targets[0].id == name:
                return n.value
            if isinstance(n, ast.AnnAssign) and isinstance(n.target, ast.Name) and n.target.id == name and n.value:
                return n.value
        fail(f"assignment {cls + '.' if cls else ''}{name} not found", file=self.rel)

    def fail(self, msg, node=None):
        fail(msg, node, self.rel)


def const_str(src, node):
    if isinstance(node, ast.Constant) and isinstance(node.value, str):
        return node.value
    src.fail(f"expected a string literal, got {ast.dump(node)[:80]}", node)


def const_int(src, node):
    if isinstance(node, ast.Constant) and isinstance(node.value, int) and not isinstance(node.value, bool):
        return node.value
    src.fail(f"expected an int literal, got {ast.dump(node)[:80]}", node)


def attr_path(node):
    """a.b.c -> ['a','b','c'] or None"""
    parts = []
    while isinstance(node, ast.Attribute):
        parts.append(node.attr)
        node = node.value
    if isinstance(node, ast.Name):
        parts.append(node.id)
        return list(reversed(parts))
    return None


def enum_member(src, node, enum_name, members):
    p = attr_path(node)
    if not p or len(p) != 2 or p[0] != enum_name or p[1] not in members:
        src.fail(f"expected {enum_name}.<member>, got {ast.dump(node)[:80]}", node)
    return p[1]


def enum_members(src, cls_name):
    """[(NAME, value)] of a simple enum.Enum class"""
    out = []
    for n in src.cls(cls_name).body:
        if isinstance(n, ast.Expr) and isinstance(n.value, ast.Constant):
            continue  # docstring
        if isinstance(n, ast.Assign) and len(n.targets) == 1 and isinstance(n.targets[0], ast.Name) \
                and isinstance(n.value, ast.Constant):
            out.append((n.targets[0].id, n.value.value))
        else:
            src.fail(f"unexpected statement in enum {cls_name}", n)
    return out


def calls_in(node, fname):
    """all Call nodes whose func is Name(fname) or Attribute(..., fname) under node"""
    res = []
    for n in ast.walk(node):
        if isinstance(n, ast.Call):
            f = n.func
            if (isinstance(f, ast.Name) and f.id == fname) or (isinstance(f, ast.Attribute) and f.attr == fname):
                res.append(n)
    return res


def kwarg(call, name):
    for k in call.keywords:
        if k.arg == name:
            return k.value
    return None


# ---- Coq printing -------------------------------------------------------------------------------
_SAFE = set("abcdefghijklmnopqrstuvwxyzABCDEFGHIJKLMNOPQRSTUVWXYZ0123456789 _-+=/.:,;#%@!?*()[]{}<>~^&|$'`\\")


def cstr(s):
    if all(ch in _SAFE for ch in s):
        return '"' + s + '"'
    return "(bytes_to_string [" + "; ".join(f"{b}%N" for b in s.encode()) + "])"


def clist(items, per_line=False):
    sep = ";\n   " if per_line else "; "
    return "[" + sep.join(items) + "]"


HEADER = """(* GENERATED by /verif/harness/translate.py from %s -- do not edit.
   Regenerated from /repo's working tree on every check run. *)
From Coq Require Import String List ZArith NArith Bool.
From Jade Require Import Base.
Import ListNotations.
Open Scope string_scope.
"""


def fstring_template(src, node, allowed):
    """f-string -> list of pieces: Lit "..." | Fld "<name>".  `allowed` maps an expression's
    unparsed source text to the field name used in the model."""
    if isinstance(node, ast.Constant) and isinstance(node.value, str):
        return [f"Lit {cstr(node.value)}"]
    if not isinstance(node, ast.JoinedStr):
        src.fail(f"expected (f-)string, got {ast.dump(node)[:80]}", node)
    pieces = []
    for v in node.values:
        if isinstance(v, ast.Constant):
            pieces.append(f"Lit {cstr(v.value)}")
        elif isinstance(v, ast.FormattedValue):
            if v.conversion != -1 or v.format_spec is not None:
                src.fail("f-string conversion/format spec not supported", node)
            txt = ast.unparse(v.value)
            if txt not in allowed:
                src.fail(f"f-string field {txt!r} is not one the model knows ({sorted(allowed)})", node)
            pieces.append(f"Fld {cstr(allowed[txt])}")
        else:
            src.fail("unexpected f-string part", node)
    return pieces



def _targets():
    """All translator targets: every module harness/gen/*.py exposes TARGETS = {GenFileName: fn}."""
    import importlib
    import pkgutil
    import harness.gen as pkg
    out = {}
    for m in sorted(pkgutil.iter_modules(pkg.__path__), key=lambda m: m.name):
        mod = importlib.import_module(f"harness.gen.{m.name}")
        for k, v in getattr(mod, "TARGETS", {}).items():
            if k in out:
                raise TranslateError(f"duplicate translator target {k}")
            out[k] = v
    return out


def run(only=None):
    """Regenerate the Gen files (all, or the named ones).  Returns {name: 'unchanged'|'rewritten'}.
    Raises TranslateError (fail closed) if the source has a shape the translator does not know."""
    GEN.mkdir(parents=True, exist_ok=True)
    out = {}
    errors = []
    for name, fn in _targets().items():
        if only is not None and name not in only:
            continue
        try:
            text = fn()
        except TranslateError as e:
            errors.append(f"{name}: {e}")
            continue
        path = GEN / f"{name}.v"
        if path.exists() and path.read_text() == text:
            out[name] = "unchanged"
        else:
            path.write_text(text)
            out[name] = "rewritten"
    if errors:
        raise TranslateError("; ".join(errors))
    return out


if __name__ == "__main__":
    from harness import translate as _t   # one module object, so TranslateError is one class
    try:
        print(_t.run())
    except _t.TranslateError as e:
        print("TRANSLATE ERROR:", e)
        sys.exit(2)
