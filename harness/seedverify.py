"""Coordinator tool: verify a seeded mutation in a scratch worktree of /repo and store it under
/verif/seeded/<id>/ (patch.diff, demo, notes.md, meta.json).  Not used by any check.
usage: seedverify.py <seed dir> <scratch worktree>"""
import json, os, shutil, subprocess, sys, tempfile, glob
import xml.etree.ElementTree as ET

def sh(cmd, cwd, env=None, timeout=1500):
    p = subprocess.run(cmd, cwd=cwd, env=env, shell=True, capture_output=True, text=True, timeout=timeout)
    return p.returncode, (p.stdout + p.stderr)

def stable_ok(wt):
    base = json.load(open("/root/.vp/BASELINE.json"))
    junit = tempfile.mktemp(suffix=".xml")
    env = dict(os.environ, PYTHONPATH=wt); env.pop("NREL_JADE_VERIF", None)
    # the pinned tests use fixed file names under the temporary directory: give every run its own
    tmpd = os.path.join(wt, ".seedverify_tmp")
    shutil.rmtree(tmpd, ignore_errors=True)
    os.makedirs(tmpd)
    env["TMPDIR"] = tmpd
    sh(f"/venv/bin/python -m pytest -ra -q -p no:cacheprovider --timeout=900 --continue-on-collection-errors --junitxml={junit}", wt, env)
    passed = set()
    for tc in ET.parse(junit).getroot().iter("testcase"):
        if not any(ch.tag in ("failure", "error", "skipped") for ch in tc):
            passed.add(f"{tc.get('classname')}::{tc.get('name')}")
    os.remove(junit)
    shutil.rmtree(tmpd, ignore_errors=True)
    missing = [t for t in base["stable_pass"] if t not in passed]
    return len(passed), missing

def main(seed, wt):
    name = os.path.basename(seed.rstrip("/"))
    pid = name.split("_")[0]
    demo = next((f for f in ("demo.py", "test_demo.py") if os.path.exists(os.path.join(seed, f))), None)
    meta = {"id": name, "property": pid, "source": "independent sub-agent given only the property text and a scratch worktree"}
    sh("git checkout -- . && git clean -fdq -e seeds", wt)
    env = dict(os.environ, PYTHONPATH=wt)
    rc0, out0 = sh(f"/venv/bin/python {os.path.join(seed, demo)}", wt, env, 900)
    meta["demo_unchanged_rc"] = rc0
    rc, out = sh(f"git apply {os.path.join(seed, 'patch.diff')}", wt)
    meta["applies"] = rc == 0
    if rc != 0:
        meta["error"] = out[-500:]
    else:
        n, missing = stable_ok(wt)
        meta["pinned_tests_passed_with_patch"] = n
        meta["stable_missing_with_patch"] = missing
        rc1, out1 = sh(f"/venv/bin/python {os.path.join(seed, demo)}", wt, env, 900)
        meta["demo_mutated_rc"] = rc1
        meta["demo_mutated_tail"] = out1[-400:]
        _, diffstat = sh("git diff --stat | tail -1", wt)
        meta["diffstat"] = diffstat.strip()
    sh("git checkout -- . && git clean -fdq -e seeds", wt)
    meta["confirmed"] = bool(meta.get("applies") and meta["demo_unchanged_rc"] == 0 and meta.get("demo_mutated_rc", 0) != 0
                             and not meta.get("stable_missing_with_patch"))
    notes = open(os.path.join(seed, "notes.md")).read() if os.path.exists(os.path.join(seed, "notes.md")) else ""
    meta["needs_to_manifest"] = notes[:1500]
    meta["ran"] = ["git apply patch.diff in a scratch worktree of /repo", "pinned pytest command + comparison with BASELINE.json stable_pass",
                   "demo on the unchanged tree (exit 0) and with the patch (exit != 0)"]
    dst = os.path.join("/verif/seeded", name)
    if meta["confirmed"]:
        os.makedirs(dst, exist_ok=True)
        for f in ("patch.diff", demo, "notes.md"):
            if os.path.exists(os.path.join(seed, f)):
                shutil.copy(os.path.join(seed, f), os.path.join(dst, f))
        json.dump(meta, open(os.path.join(dst, "meta.json"), "w"), indent=1)
    print(name, "CONFIRMED" if meta["confirmed"] else "REJECTED", {k: meta.get(k) for k in ("applies", "demo_unchanged_rc", "demo_mutated_rc", "stable_missing_with_patch")})

if __name__ == "__main__":
    main(sys.argv[1], sys.argv[2])
