"""Drivers for Queue.v against the real jade.jobs.job_queue.JobQueue.

A. `run_script`: the real JobQueue driven by scripted AsyncJobInterface objects (the environment -
   completion answers, return codes, run() results - is a script); every call the queue makes on a
   job is recorded, the queue is observed after every operation.
B. `run_node`: the real JobRunner._run_jobs -> JobQueue.run_jobs -> AsyncCliCommand path with
   subprocess.Popen replaced by scripted processes and time.sleep by a poll counter.
C. `run_hpc`: real HpcSubmitter.run rounds on a real Cluster with a scripted sbatch/squeue
   (jadeenv.FakeSlurm); batches finish between and during rounds.

Each returns plain data; the Coq terms for the model side are printed here as well.  The property
oracles (`*_oracle`) judge only what impl did."""
import json
import os
import shutil
import tempfile
import types

from harness import jadeenv
from harness.core import cN, cZ, cbool, clist, cnat

IMPORTS = "From Coq Require Import List ZArith NArith Bool.\nFrom Jade Require Import Base Queue."
MAXSIZE = 2 ** 63 - 1


# ---------------------------------------------------------------------------------------------
# terms
def job_term(j):
    return (f"{{| j_name := {cN(j['name'])}; j_block := {clist([cN(b) for b in sorted(j['block'])])}; "
            f"j_flag := {cbool(j['flag'])} |}}")


def ans_term(ans):
    return clist(["None" if a is None else f"(Some {cZ(a)})" for a in ans])


def op_term(op):
    k = op[0]
    if k == "submit":
        return f"OpSubmit {job_term(op[1])} {cbool(op[2])}"
    if k == "submit_if":
        return f"OpSubmitIfNotFull {job_term(op[1])} {cbool(op[2])}"
    if k == "process":
        return f"OpProcess {ans_term(op[1])} {clist([cbool(b) for b in op[2]])}"
    raise ValueError(k)


def ev_term(e):
    k = e[0]
    if k == "run":
        return f"EvRun {job_term(e[1])} {clist([cN(b) for b in e[2]])} {cbool(e[3])} {cnat(e[4])}"
    if k == "complete":
        return f"EvComplete {cN(e[1])} {cZ(e[2])}"
    if k == "cancel":
        return f"EvCancel {job_term(e[1])} {clist([cN(b) for b in e[2]])}"
    if k == "unblock":
        return f"EvUnblock {cN(e[1])} {cN(e[2])}"
    raise ValueError(k)


def obs_term(o):
    out = clist([f"({cN(n)}, {cbool(p)})" for n, p in o["out"]])
    qd = clist([f"({cN(n)}, {clist([cN(b) for b in bl])})" for n, bl in o["queued"]])
    return f"({out}, {qd}, ({cN(o['njobs'])}, {cN(o['ncompleted'])}))"


def trace_term(res):
    return (f"({clist([obs_term(o) for o in res['obs']])}, {clist([ev_term(e) for e in res['log']])}, false)")


def case_input(depth, existing, ops):
    return f"({cZ(depth)}, {clist([cN(n) for n in existing])}, {clist([op_term(o) for o in ops])})"


def trace_fn(counters=True, live=True):
    """the model side of a comparison; counters=False: _num_jobs/_num_completed are not compared (private
    attributes absent in impl); live=False: the live count carried by run events is not compared"""
    obs = "l" if counters else "map (fun o => (fst o, (0%N, 0%N))) l"
    lg = "lg" if live else "map (fun x => match x with EvRun j b o _ => EvRun j b o 0 | y => y end) lg"
    return ("fun c => match c with (depth, existing, ops) => match trace depth existing ops with (l, lg, e) => "
            f"({obs}, {lg}, e) end end")


def strip_counters(obs):
    return [dict(o, njobs=0, ncompleted=0) for o in obs]


TRACE_IN = "Z * list N * list op"
TRACE_OUT = "list obs * list ev * bool"


# ---------------------------------------------------------------------------------------------
# A. scripted jobs on the real JobQueue
class Rig:
    def __init__(self):
        self.log = []          # events in call order
        self.answers = []      # answers of the current process_queue
        self.runs = []         # run() results of the current op
        self.jobs = []
        self.problems = []     # harness-level surprises (not property violations)

    def next_answer(self):
        return self.answers.pop(0) if self.answers else None

    def next_run(self):
        return self.runs.pop(0) if self.runs else True

    def live(self):
        return sum(1 for j in self.jobs if j.state == "running")


def _scripted_job_class():
    from jade.jobs.async_job_interface import AsyncJobInterface
    from jade.enums import Status

    class ScriptedJob(AsyncJobInterface):
        """AsyncJobInterface whose environment is the rig's script.  Mirrors AsyncCliCommand where the
        interface leaves freedom: cancel() makes the job complete with return code 1."""

        def __init__(self, rig, spec, running=False):
            self.rig = rig
            self.spec = spec
            self.n = spec["name"]
            self.block = set(str(b) for b in spec["block"])
            self.flag = spec["flag"]
            self.state = "running" if running else "new"   # new | running | done | canceled | runfailed
            self.rc = None
            self.prev_block = None
            self.n_run = 0
            rig.jobs.append(self)

        def _blk(self, s=None):
            return sorted(int(b) for b in (self.block if s is None else s))

        def cancel(self):
            blk = self.prev_block if self.prev_block is not None else self._blk()
            self.rig.log.append(("cancel", self.spec, blk))
            if self.state != "new":
                self.rig.problems.append(f"cancel() on job {self.n} in state {self.state}")
            self.state = "canceled"
            self.rc = 1

        @property
        def cancel_on_blocking_job_failure(self):
            return self.flag

        def get_id(self):
            return self.n

        def is_complete(self):
            if self.state == "canceled":
                self.rig.log.append(("complete", self.n, 1))
                return True
            if self.state == "done":
                self.rig.log.append(("complete", self.n, self.rc))
                self.rig.problems.append(f"is_complete() polled again on finished job {self.n}")
                return True
            a = self.rig.next_answer()
            if a is None:
                return False
            self.rc = a
            self.state = "done"
            self.rig.log.append(("complete", self.n, a))
            return True

        @property
        def name(self):
            return str(self.n)

        @property
        def return_code(self):
            return self.rc

        def run(self):
            ok = self.rig.next_run()
            self.n_run += 1
            blk = self._blk()
            if ok:
                self.state = "running"
            else:
                self.state = "runfailed"
            self.rig.log.append(("run", self.spec, blk, ok, self.rig.live()))
            return Status.GOOD if ok else Status.ERROR

        def get_blocking_jobs(self):
            return self.block

        def remove_blocking_job(self, name):
            self.rig.log.append(("unblock", self.n, int(name)))
            self.block.remove(name)

        def set_blocking_jobs(self, jobs):
            self.prev_block = self._blk()
            self.block = set(jobs)

    return ScriptedJob


def run_script(depth, existing, ops):
    """-> dict(obs=[...], log=[...], error=str|None, problems=[...], private=bool)"""
    import jade.jobs.job_queue as jq
    cls = _scripted_job_class()
    rig = Rig()
    ex = [cls(rig, {"name": n, "block": [], "flag": False}, running=True) for n in existing]
    orig_time = jq.time
    jq.time = types.SimpleNamespace(sleep=lambda s: None, time=orig_time.time)
    obs = []
    err = None
    private = True
    enq_order = []
    try:
        q = jq.JobQueue(depth, existing_jobs=ex, poll_interval=0, monitor_func=None, monitor_interval=None)
        for op in ops:
            try:
                if op[0] in ("submit", "submit_if"):
                    if op[0] == "submit_if" and q.is_full():
                        pass
                    else:
                        j = cls(rig, op[1])
                        rig.runs = [op[2]]
                        before = len(rig.log)
                        q.submit(j)
                        if len(rig.log) == before:
                            enq_order.append(j)
                else:
                    rig.answers = list(op[1])
                    rig.runs = list(op[2])
                    q.process_queue()
            except Exception as e:  # impl crashed
                err = f"{type(e).__name__}: {str(e)[:120]} in op {op[0]}"
                break
            out = [(int(j.name), j.state == "canceled") for j in q.outstanding_jobs]
            if hasattr(q, "_queued_jobs"):
                qd = [(int(j.name), j._blk()) for j in q._queued_jobs]
            else:   # FIFO: the queue holds, in submission order, the jobs enqueued and neither run nor canceled
                private = False
                qd = [(j.n, j._blk()) for j in enq_order if j.state == "new"]
            nj, nc = getattr(q, "_num_jobs", None), getattr(q, "_num_completed", None)
            if nj is None or nc is None:
                private = False
                nj = nc = 0
            obs.append({"out": out, "queued": qd, "njobs": nj, "ncompleted": nc, "full": bool(q.is_full())})
    finally:
        jq.time = orig_time
    return {"obs": obs, "log": rig.log, "error": err, "problems": rig.problems, "private": private}


def script_oracle(depth, existing, ops, res):
    """C06 (+ the C02/C04 contracts of the queue) judged on the calls impl made.  -> [(sig, msg)]"""
    probs = []
    if res["error"]:
        probs.append(("queue-exception", "JobQueue raised " + res["error"]))
    k0 = len(set(existing))
    launched, canceled = {}, set()
    completed_rc = {}
    failed_since_poll = set()
    for e in res["log"]:
        if e[0] == "run":
            spec, blk, ok, live = e[1], e[2], e[3], e[4]
            n = spec["name"]
            if blk:
                probs.append(("run-while-blocked", f"job {n} started with blocking set {blk}"))
            launched[n] = launched.get(n, 0) + 1
            if launched[n] > 1:
                probs.append(("run-twice", f"job {n} started twice"))
            if n in canceled:
                probs.append(("run-after-cancel", f"canceled job {n} started"))
            if k0 <= depth and live > depth:
                probs.append(("depth-exceeded", f"{live} entries running after starting job {n}, depth {depth}"))
            for b in spec["block"]:
                if b not in completed_rc:
                    probs.append(("run-before-blocker", f"job {n} started before its blocker {b} was seen complete"))
        elif e[0] == "complete":
            completed_rc[e[1]] = e[2]
        elif e[0] == "cancel":
            spec, blk = e[1], e[2]
            n = spec["name"]
            canceled.add(n)
            if not spec["flag"]:
                probs.append(("cancel-unflagged", f"job {n} without cancel_on_blocking_job_failure was canceled"))
            if not any(completed_rc.get(b, 0) != 0 for b in blk):
                probs.append(("cancel-without-failure", f"job {n} canceled but none of its blockers {blk} failed"))
            if n in launched:
                probs.append(("cancel-after-run", f"started job {n} canceled"))
        elif e[0] == "unblock":
            if e[2] not in completed_rc:
                probs.append(("unblock-without-completion", f"{e[2]} left the blocking set of {e[1]} without having completed"))
    # after every operation: no canceled entry is left parked, outstanding within depth
    for i, o in enumerate(res["obs"]):
        if any(p for _, p in o["out"]):
            probs.append(("canceled-left-outstanding", f"after op {i} a canceled job is still in the outstanding set"))
        if k0 <= depth and len(o["out"]) > depth:
            probs.append(("outstanding-exceeds-depth", f"after op {i}: {len(o['out'])} outstanding, depth {depth}"))
    return probs


def gen_script(rng, small=False):
    """random scenario: depth 1..4, existing entries, DAG-ish blocking sets, an interleaving of submit /
    guarded submit / process_queue operations with scripted answers"""
    depth = rng.choice([1, 1, 2, 2, 3, 4])
    n = rng.randint(1, 4 if small else 9)
    names = list(range(1, n + 1))
    order = names[:]
    rng.shuffle(order)
    pos = {x: i for i, x in enumerate(order)}
    style = rng.choice(["dag", "dag", "dag", "chain", "wild"])
    jobs = []
    for x in names:
        if style == "chain":
            block = [order[pos[x] - 1]] if pos[x] > 0 and rng.random() < 0.8 else []
        elif style == "dag":
            block = [y for y in names if pos[y] < pos[x] and rng.random() < 0.35]
        else:   # blockers anywhere, also unknown names / cycles
            block = [y for y in names + [77] if y != x and rng.random() < 0.25]
        jobs.append({"name": x, "block": sorted(block), "flag": rng.random() < 0.6})
    k = rng.choice([0, 0, 0, 1, 2, 3]) if rng.random() < 0.8 else rng.randint(0, depth + 2)
    existing = list(range(101, 101 + k))
    if existing and rng.random() < 0.3:   # existing entries can be blockers too
        for j in jobs:
            if rng.random() < 0.3:
                j["block"] = sorted(set(j["block"]) | {rng.choice(existing)})
    mode = rng.choice(["run_jobs", "run_jobs", "interleaved", "guarded"])
    p_fail = rng.choice([0.0, 0.15, 0.35, 0.6])
    p_done = rng.choice([0.3, 0.6, 0.9])
    p_runfail = rng.choice([0.0, 0.0, 0.15])

    def answers():
        return [(rng.choice([0, 0, 1, 2, -9]) if rng.random() < p_fail else 0) if rng.random() < p_done else None
                for _ in range(rng.randint(0, 8))]

    def runs():
        return [rng.random() >= p_runfail for _ in range(rng.randint(0, 4))]

    ops = []
    todo = jobs[:]
    if rng.random() < 0.5:
        rng.shuffle(todo)
    if mode == "run_jobs":
        for j in todo:
            ops.append(("submit", j, rng.random() >= p_runfail))
        for _ in range(rng.randint(1, 2 * n + 3)):
            ops.append(("process", answers(), runs()))
    else:
        kind = "submit_if" if mode == "guarded" else "submit"
        while todo or rng.random() < 0.6:
            if todo and rng.random() < 0.55:
                ops.append((kind if rng.random() < 0.8 else "submit", todo.pop(0), rng.random() >= p_runfail))
            else:
                ops.append(("process", answers(), runs()))
            if len(ops) > 3 * n + 12:
                break
    return depth, existing, ops


def directed_scripts():
    """corner cases: pinned 10-job graph of tests/unit/jobs/test_job_queue.py, cancel chains through
    the parked entries, over-full queue at construction, run() failures"""
    out = []
    J = lambda n, b=(), f=False: {"name": n, "block": sorted(b), "flag": f}
    # chain 1 <- 2 <- 3 <- 4 all flagged, 1 fails: whole chain canceled in ONE pass, nothing left parked
    chain = [J(1), J(2, [1], True), J(3, [2], True), J(4, [3], True), J(5, [4], False)]
    out.append((2, [], [("submit", j, True) for j in chain] + [("process", [1], []), ("process", [], []), ("process", [0], [])]))
    # dependents listed before the failing job; mixed flags on a diamond
    dia = [J(4, [2, 3], True), J(3, [1], False), J(2, [1], True), J(1)]
    out.append((1, [], [("submit", j, True) for j in dia] + [("process", [2], [])] + [("process", [0, 0], [])] * 4))
    out.append((3, [], [("submit", j, True) for j in dia] + [("process", [0], [])] + [("process", [None, 5], [])] + [("process", [0, 0], [])] * 3))
    # depth 1, many independent jobs
    out.append((1, [], [("submit", J(i), True) for i in range(1, 6)] + [("process", [0], [])] * 6))
    # the pinned ordering test graph (10 jobs; 1 blocked by 10, 2 by 1, 3 by {4,5}, ...)
    g = {1: [10], 2: [1], 3: [4, 5], 4: [], 5: [], 6: [3], 7: [], 8: [], 9: [], 10: []}
    out.append((4, [], [("submit", J(i, g[i]), True) for i in range(1, 11)] + [("process", [0, None, 0], [])] * 12))
    # existing entries above the depth: unguarded submit + process_queue (available_jobs negative)
    out.append((1, [101, 102, 103], [("submit", J(1), True), ("process", [], []), ("submit", J(2), True), ("process", [None, 0], [])]))
    out.append((2, [101, 102, 103], [("submit_if", J(1), True), ("process", [0, 0], []), ("submit_if", J(2), True), ("submit_if", J(3), True)]))
    # run() failures: the job is dropped, its dependents stay queued
    out.append((2, [], [("submit", J(1), False), ("submit", J(2, [1]), True), ("submit", J(3), True), ("process", [0], [False, True])]))
    # failure seen in a later iteration of the same pass (rerun polls running jobs again)
    out.append((3, [], [("submit", J(1), True), ("submit", J(2), True), ("submit", J(3, [1], True), True), ("submit", J(4, [2], True), True),
                        ("submit", J(5, [3, 4], False), True), ("process", [1, None, 3], []), ("process", [0], [])]))
    return out


def exhaustive_scripts(max_jobs=2):
    """all blocking relations / flags over <= max_jobs jobs, depth 1..2, 0..1 existing, a fixed grid of
    answer scripts"""
    import itertools
    answer_grid = [[0], [1], [None, 0], [None, 1], [0, 0], [1, 0], [0, 1]]
    for n in range(1, max_jobs + 1):
        names = list(range(1, n + 1))
        pairs = [(a, b) for a in names for b in names if a != b]
        for mask in range(1 << len(pairs)):
            for flags in itertools.product([False, True], repeat=n):
                jobs = [{"name": a, "block": sorted(b for k, (x, b) in enumerate(pairs) if x == a and mask >> k & 1),
                         "flag": flags[a - 1]} for a in names]
                for depth in (1, 2):
                    for ex in ([], [101]):
                        for a1 in answer_grid:
                            for a2 in ([0, 0], [2]):
                                ops = [("submit", j, True) for j in jobs] + [("process", a1, []), ("process", a2, []), ("process", [0, 0], [])]
                                yield depth, ex, ops


# ---------------------------------------------------------------------------------------------
# spies (record, never alter): a JobQueue subclass that notes its instances and the state after
# every submit / process_queue; wrappers around the job classes' methods
def _spy_queue_class(record, name_of, is_canceled):
    import jade.jobs.job_queue as jq

    class SpyQueue(jq.JobQueue):
        def __init__(self, *a, **kw):
            super().__init__(*a, **kw)
            record["queues"].append(self)
            record["depth"] = a[0] if a else kw.get("max_queue_depth")
            self._spy_private = True
            self._spy_enq = []      # jobs that submit() did not start, in submission order

        def _spy_obs(self):
            out = [(name_of(j), is_canceled(j)) for j in self.outstanding_jobs]
            if hasattr(self, "_queued_jobs"):
                qd = [(name_of(j), sorted(int(b) for b in j.get_blocking_jobs())) for j in self._queued_jobs]
            else:   # FIFO: the jobs enqueued and neither started nor canceled since, in submission order
                self._spy_private = False
                qd = [(name_of(j), sorted(int(b) for b in j.get_blocking_jobs())) for j in self._spy_enq
                      if id(j) not in record.setdefault("started", set())]
            nj, nc = getattr(self, "_num_jobs", None), getattr(self, "_num_completed", None)
            if nj is None or nc is None:
                self._spy_private = False
                nj = nc = 0
            return {"out": out, "queued": qd, "njobs": nj, "ncompleted": nc}

        def submit(self, job):
            full = bool(self.is_full())
            record["ops"].append(["submit", job, full])
            record["last_run_ok"] = None
            super().submit(job)
            record["ops"][-1].append(record["last_run_ok"])   # None: run() was not called
            if record["last_run_ok"] is None:
                self._spy_enq.append(job)
            record["obs"].append(self._spy_obs())

        def process_queue(self):
            record["ops"].append(["process"])
            record["cur_answers"] = []
            super().process_queue()
            record["ops"][-1].append(record["cur_answers"])
            record["obs"].append(self._spy_obs())

    return SpyQueue


class _Patch:
    """restore attributes on exit"""

    def __init__(self):
        self.saved = []

    def set(self, obj, attr, val):
        self.saved.append((obj, attr, getattr(obj, attr)))
        setattr(obj, attr, val)

    def restore(self):
        for obj, attr, val in reversed(self.saved):
            setattr(obj, attr, val)
        self.saved = []


class _Stuck(BaseException):
    pass


# ---------------------------------------------------------------------------------------------
# B. compute node: JobRunner.run_jobs -> _run_jobs -> JobQueue.run_jobs -> AsyncCliCommand
def gen_node(rng):
    n = rng.randint(1, 8)
    names = list(range(1, n + 1))
    order = names[:]
    rng.shuffle(order)
    pos = {x: i for i, x in enumerate(order)}
    jobs = []
    for x in names:
        block = [y for y in names if pos[y] < pos[x] and rng.random() < 0.35]
        if rng.random() < 0.04:
            block.append(90)      # a blocker that is not in this batch: the job can never start
        jobs.append({"name": x, "block": sorted(block), "flag": rng.random() < 0.55})
    nproc = rng.choice([None, 1, 1, 2, 3, 4])
    cpus = rng.choice([1, 2, 3, 4])
    p_fail = rng.choice([0.0, 0.25, 0.5])
    p_done = rng.choice([0.3, 0.6, 1.0])
    stream = [(rng.choice([1, 2, 127, -9]) if rng.random() < p_fail else 0) if rng.random() < p_done else None
              for _ in range(rng.randint(0, 40))]
    return {"jobs": jobs, "nproc": nproc, "cpus": cpus, "stream": stream}


def directed_nodes():
    J = lambda n, b=(), f=False: {"name": n, "block": sorted(b), "flag": f}
    out = []
    out.append({"jobs": [J(1), J(2, [1], True), J(3, [2], True), J(4, [3], True), J(5, [4])], "nproc": 2, "cpus": 4, "stream": [3]})
    out.append({"jobs": [J(i) for i in range(1, 8)], "nproc": None, "cpus": 2, "stream": [None, 0, None, None, 0]})
    out.append({"jobs": [J(i) for i in range(1, 6)], "nproc": 1, "cpus": 4, "stream": []})
    out.append({"jobs": [J(4, [2, 3], True), J(3, [1]), J(2, [1], True), J(1)], "nproc": 4, "cpus": 4, "stream": [None, 2, 0, 0]})
    return out


def run_node(sc, tmp):
    """-> dict(depth, ops, obs, log, launches=[(name, live_after, rows_on_disk)], rows, error, stuck)"""
    import jade.jobs.async_cli_command as acc
    import jade.jobs.job_queue as jq
    import jade.jobs.job_runner as jr
    from jade.common import RESULTS_DIR
    out = tempfile.mkdtemp(prefix="node_", dir=tmp)
    spec = {j["name"]: j for j in sc["jobs"]}
    jsc = {"jobs": [{"name": str(j["name"]), "deps": [str(b) for b in j["block"]], "cancel": j["flag"], "group": "g"}
                    for j in sc["jobs"]],
           "groups": [{"name": "g", "size": 500, "nproc": sc["nproc"]}], "max_nodes": None}
    record = {"queues": [], "ops": [], "obs": [], "log": [], "cur_answers": [], "depth": None}
    canceled = set()
    procs = []
    stream = list(sc["stream"])
    launches = []
    polls = [0]
    res_dir = os.path.join(out, RESULTS_DIR)

    def rows_now():
        names = []
        if os.path.isdir(res_dir):
            for f in sorted(os.listdir(res_dir)):
                if f.endswith(".csv"):
                    for line in open(os.path.join(res_dir, f)).read().split("\n")[1:]:
                        if line:
                            names.append(line.split(",")[0])
        return names

    class FakePopen:
        def __init__(self, cmd, env=None, **kw):
            self.jname = int(env["JADE_JOB_NAME"])
            self.pid = 1000 + len(procs)
            self.returncode = None
            procs.append(self)
            launches.append((self.jname, sum(1 for p in procs if p.returncode is None), rows_now()))

        def poll(self):
            if self.returncode is None:
                a = stream.pop(0) if stream else 0   # script exhausted: processes exit with 0
                record["cur_answers"].append(a)
                self.returncode = a
            return self.returncode

    def sleep(_s):
        polls[0] += 1
        if polls[0] > 40:
            raise _Stuck()

    P = _Patch()
    env_keys = {"SLURM_JOB_ID": "55", "SLURM_NODEID": "0", "SLURM_CPUS_ON_NODE": str(sc["cpus"]), "LOCAL_SCRATCH": out,
                "SLURM_CLUSTER_NAME": "fake"}
    old_env = {k: os.environ.get(k) for k in env_keys}
    os.environ.update(env_keys)
    os.environ.pop("JADE_MONITOR_INTERVAL", None)
    C = acc.AsyncCliCommand
    o_run, o_cancel, o_ic, o_rm, o_sb = C.run, C.cancel, C.is_complete, C.remove_blocking_job, C.set_blocking_jobs
    prev_block = {}

    def w_run(self):
        blk = sorted(int(b) for b in self.get_blocking_jobs())
        r = o_run(self)
        n = int(self.name)
        record.setdefault("started", set()).add(id(self))
        record["last_run_ok"] = True
        record["log"].append(("run", spec[n], blk, True, sum(1 for p in procs if p.returncode is None)))
        return r

    def w_cancel(self):
        n = int(self.name)
        record["log"].append(("cancel", spec[n], prev_block.get(n, sorted(int(b) for b in self.get_blocking_jobs()))))
        canceled.add(n)
        record.setdefault("started", set()).add(id(self))
        return o_cancel(self)

    def w_ic(self):
        r = o_ic(self)
        if r:
            record["log"].append(("complete", int(self.name), self.return_code))
        return r

    def w_rm(self, name):
        record["log"].append(("unblock", int(self.name), int(name)))
        return o_rm(self, name)

    def w_sb(self, jobs):
        prev_block[int(self.name)] = sorted(int(b) for b in self.get_blocking_jobs())
        return o_sb(self, jobs)

    err, stuck, status = None, False, None
    try:
        cfg = jadeenv.make_config(jsc)
        P.set(acc, "subprocess", types.SimpleNamespace(Popen=FakePopen))
        P.set(jq, "time", types.SimpleNamespace(sleep=sleep, time=jq.time.time))
        P.set(jr, "JobQueue", _spy_queue_class(record, lambda j: int(j.name), lambda j: int(j.name) in canceled))
        for a, w in (("run", w_run), ("cancel", w_cancel), ("is_complete", w_ic), ("remove_blocking_job", w_rm),
                     ("set_blocking_jobs", w_sb)):
            P.set(C, a, w)
        try:
            runner = jr.JobRunner(cfg, out, batch_id=1)
            status = runner.run_jobs(distributed_submitter=False, verbose=False,
                                     num_parallel_processes_per_node=sc["nproc"])
        except _Stuck:
            stuck = True
        except Exception as e:
            err = f"{type(e).__name__}: {str(e)[:160]}"
        rows = {}
        if os.path.isdir(res_dir):
            for f in sorted(os.listdir(res_dir)):
                if f.endswith(".csv"):
                    for line in open(os.path.join(res_dir, f)).read().split("\n")[1:]:
                        if line:
                            p = line.split(",")
                            rows.setdefault(int(p[0]), []).append((int(p[1]), p[2]))
    finally:
        P.restore()
        for k, v in old_env.items():
            if v is None:
                os.environ.pop(k, None)
            else:
                os.environ[k] = v
        shutil.rmtree(out, ignore_errors=True)
    ops = []
    for o in record["ops"]:
        if o[0] == "submit":
            ops.append(("submit", spec[int(o[1].name)], True))
        else:
            ops.append(("process", o[1] if len(o) > 1 else record["cur_answers"], []))
    obs = record["obs"]
    private = all(q._spy_private for q in record["queues"])
    return {"depth": record["depth"], "ops": ops, "obs": obs, "log": record["log"], "launches": launches, "rows": rows,
            "error": err, "stuck": stuck, "n_queues": len(record["queues"]), "private": private, "status": str(status)}


def node_oracle(sc, res):
    probs = []
    limit = sc["nproc"] if sc["nproc"] is not None else sc["cpus"]
    spec = {j["name"]: j for j in sc["jobs"]}
    if res["error"]:
        probs.append(("node-exception", "JobRunner.run_jobs raised " + res["error"]))
    seen = set()
    for name, live, rows in res["launches"]:
        if live > limit:
            probs.append(("processes-exceed-limit", f"{live} job processes alive after starting job {name}; limit {limit} "
                                                    f"(processes-per-node {sc['nproc']}, node CPUs {sc['cpus']})"))
        if name in seen:
            probs.append(("launched-twice", f"job {name} started twice"))
        seen.add(name)
        missing = [b for b in spec[name]["block"] if str(b) not in rows]
        if missing:
            probs.append(("launch-before-blocker-outcome", f"job {name} started while blockers {missing} have no result row"))
    for name in seen:
        if spec[name]["flag"]:
            bad = [b for b in spec[name]["block"] if any(rc != 0 or st == "canceled" for rc, st in res["rows"].get(b, []))]
            if bad:
                probs.append(("flagged-job-started-after-failed-blocker",
                              f"job {name} has cancel_on_blocking_job_failure and was started although blockers {bad} failed or were canceled"))
    for n, rws in res["rows"].items():
        if len(rws) > 1:
            probs.append(("two-result-rows", f"job {n} has {len(rws)} result rows"))
        if rws[0][1] == "canceled":
            if n in seen:
                probs.append(("canceled-but-launched", f"job {n} has a canceled row and was started"))
            if not spec[n]["flag"]:
                probs.append(("unflagged-canceled", f"job {n} canceled without cancel_on_blocking_job_failure"))
            if not any(res["rows"].get(b, [(0, "")])[0][0] != 0 for b in spec[n]["block"]):
                probs.append(("canceled-without-failed-blocker", f"job {n} canceled, no blocker of it failed"))
    if not res["stuck"] and not res["error"]:
        for n, j in spec.items():
            if n not in res["rows"]:
                probs.append(("job-without-outcome", f"run_jobs returned but job {n} has no result row"))
    return probs


# ---------------------------------------------------------------------------------------------
# C. submitter rounds: HpcSubmitter.run on a real Cluster, scripted sbatch / squeue
def gen_hpc(rng):
    n = rng.randint(3, 14)
    jobs = []
    for i in range(1, n + 1):
        deps = [f"j{d}" for d in range(1, i) if rng.random() < 0.12]
        jobs.append({"name": f"j{i}", "deps": deps, "cancel": False, "group": "g", "est": 1, "rc": 0})
    max_nodes = rng.choice([1, 1, 2, 2, 3, None])
    size = rng.choice([1, 1, 2, 3])
    cap = max_nodes if max_nodes is not None else 3
    k = rng.randint(0, cap) if rng.random() < 0.85 else rng.randint(cap + 1, cap + 2)   # sometimes already over-full
    states = [rng.choice(["RUNNING", "PENDING", "GONE", "RUNNING"]) for _ in range(k)]
    return {"jobs": jobs, "groups": [{"name": "g", "size": size, "time": False, "try": rng.random() < 0.7, "nproc": None}],
            "max_nodes": max_nodes, "existing_states": states, "rounds": rng.randint(1, 5),
            "oks": [rng.random() < 0.75 for _ in range(rng.choice([0, 0, 4, 8]))],
            "p_finish_between": rng.choice([0.0, 0.3, 0.7]), "p_finish_during": rng.choice([0.0, 0.0, 0.4]),
            "seed": rng.randrange(1 << 30)}


def directed_hpc():
    J = lambda i: {"name": f"j{i}", "deps": [], "cancel": False, "group": "g", "est": 1, "rc": 0}
    G = [{"name": "g", "size": 1, "time": False, "try": True, "nproc": None}]
    base = {"jobs": [J(i) for i in range(1, 9)], "groups": G, "oks": [], "p_finish_between": 0.5, "p_finish_during": 0.0, "seed": 7}
    return [dict(base, max_nodes=1, existing_states=[], rounds=5),
            dict(base, max_nodes=2, existing_states=["RUNNING", "GONE"], rounds=4),
            dict(base, max_nodes=2, existing_states=["RUNNING", "RUNNING", "PENDING"], rounds=3),      # over-full start
            dict(base, max_nodes=3, existing_states=[], rounds=3, oks=[False, True, False, True, True]),
            dict(base, max_nodes=None, existing_states=["RUNNING"], rounds=2),
            dict(base, max_nodes=2, existing_states=[], rounds=5, p_finish_during=0.5, seed=11)]


def run_hpc(sc, tmp):
    """-> dict(rounds=[{depth, existing, ops, obs, log, persisted_before, persisted_after, active_after_each_sbatch, ...}],
              error)"""
    import random as _random
    import jade.hpc.slurm_manager as sm
    import jade.hpc.hpc_submitter as hsm
    from jade.jobs.cluster import Cluster
    from jade.jobs.results_aggregator import ResultsAggregator
    rng = _random.Random(sc["seed"])
    out = tempfile.mkdtemp(prefix="hpc_", dir=tmp)
    P = _Patch()
    rounds = []
    err = None
    try:
        cfg = jadeenv.make_config(sc)
        cfg_file = os.path.join(out, "config.json")
        cfg.dump(cfg_file)
        cluster = Cluster.create(out, cfg)
        ResultsAggregator.create(out)
        os.makedirs(os.path.join(out, "results"), exist_ok=True)
        cur = {}

        def active():
            return sorted(i for i, b in fake.jobs.items() if b["state"] in ("PENDING", "RUNNING"))

        def on_event(kind, *a):
            if kind == "squeue-call":
                cur["snapshot"] = active()
            elif kind == "sbatch-call":
                # batches may end at any moment, also while the submitter is working
                for i in active():
                    if rng.random() < sc["p_finish_during"]:
                        fake.jobs[i]["state"] = "GONE"
                        cur["finished_during"].append(i)
                cur["active_at_call"].append(len(active()))
            elif kind == "sbatch":
                cur["new_ids"].append(a[0])
                cur["active_after_sbatch"].append(len(active()))

        fake = jadeenv.FakeSlurm(first_id=100, sbatch_oks=sc["oks"], on_event=on_event)
        ids = fake.add_existing(len(sc["existing_states"]))
        for i, st in zip(ids, sc["existing_states"]):
            fake.jobs[i]["state"] = st
        cluster.job_status.hpc_job_ids = list(ids)
        cluster.serialize_jobs("verif-prestate")
        cluster.demote_from_submitter()
        P.set(sm, "run_command", fake)
        A = hsm.AsyncHpcSubmitter
        o_run, o_ic = A.run, A.is_complete
        record = {"queues": [], "ops": [], "obs": [], "log": [], "cur_answers": [], "depth": None}
        names = {}

        def name_of(j):
            nm = j.name
            if nm not in names:
                names[nm] = int(nm) if str(nm).isdigit() else 1000 + int(str(nm).rsplit("_", 1)[1])
            return names[nm]

        def w_run(self):
            r = o_run(self)
            ok = str(r).endswith("GOOD")
            record["log"].append(("run", {"name": name_of(self), "block": [], "flag": False}, [], ok, 0))
            record["last_run_ok"] = ok
            record.setdefault("started", set()).add(id(self))
            return r

        def w_ic(self):
            was = self._is_complete
            r = o_ic(self)
            if not was:
                record["cur_answers"].append(1 if r else None)
            if r:
                record["log"].append(("complete", name_of(self), 1 if self._return_code is None else self._return_code))
            return r

        P.set(A, "run", w_run)
        P.set(A, "is_complete", w_ic)
        P.set(hsm, "JobQueue", _spy_queue_class(record, name_of, lambda j: False))
        for rno in range(sc["rounds"]):
            cluster, promoted = Cluster.deserialize(out, try_promote_to_submitter=True, deserialize_jobs=True)
            if not promoted:
                err = "could not promote to submitter"
                break
            before = list(cluster.iter_hpc_job_ids())
            cur.clear()
            cur.update(snapshot=None, new_ids=[], active_after_sbatch=[], active_at_call=[], finished_during=[])
            for k in ("queues", "ops", "obs", "log"):
                record[k] = []
            active_before = active()
            rerr = None
            try:
                hs = hsm.HpcSubmitter(cfg, cfg_file, cluster, out)
                hs.run()
            except Exception as e:
                rerr = f"{type(e).__name__}: {str(e)[:160]}"
            finally:
                cluster.demote_from_submitter()
            after = list(cluster.job_status.hpc_job_ids)
            ops = []
            for o in record["ops"]:
                if o[0] == "submit":
                    # o[2]: the queue was full when submit() was called (HpcSubmitter must not do that)
                    ops.append(("submit" if o[2] else "submit_if", {"name": name_of(o[1]), "block": [], "flag": False},
                                True if o[3] is None else bool(o[3])))
                else:
                    ops.append(("process", o[1] if len(o) > 1 else record["cur_answers"], []))
            obs = record["obs"]
            private = all(q._spy_private for q in record["queues"])
            rounds.append({"depth": record["depth"], "existing": [int(i) for i in before], "ops": ops, "obs": obs,
                           "log": record["log"], "persisted_before": before, "persisted_after": after,
                           "active_before": active_before, "snapshot": cur["snapshot"], "new_ids": list(cur["new_ids"]),
                           "active_after_each_sbatch": list(cur["active_after_sbatch"]), "active_at_each_sbatch_call": list(cur["active_at_call"]),
                           "finished_during": list(cur["finished_during"]), "error": rerr, "n_queues": len(record["queues"]),
                           "private": private, "squeue_calls": sum(1 for e in fake.log if e[0] == "squeue")})
            if rerr:
                break
            for i in active():
                if rng.random() < sc["p_finish_between"]:
                    fake.jobs[i]["state"] = "GONE"
    except Exception as e:
        err = f"{type(e).__name__}: {str(e)[:200]}"
    finally:
        P.restore()
        shutil.rmtree(out, ignore_errors=True)
    return {"rounds": rounds, "error": err}


def hpc_oracle(sc, res):
    probs = []
    if res["error"]:
        probs.append(("hpc-harness", "scenario could not be run: " + res["error"]))
    m = sc["max_nodes"]
    limit = m if m is not None else MAXSIZE
    for rno, r in enumerate(res["rounds"]):
        if r["error"]:
            probs.append(("round-exception", f"round {rno}: HpcSubmitter.run raised {r['error']}"))
        start = len(r["active_before"])
        for k, a in enumerate(r["active_after_each_sbatch"]):
            if a > max(limit, 0) and a > 0 and (start <= limit):
                probs.append(("max-nodes-exceeded", f"round {rno}: {a} batches queued/running on the HPC after sbatch #{k + 1}; "
                                                    f"max-nodes {m}; {start} were active when the round began"))
        if start > limit and r["new_ids"]:
            probs.append(("sbatch-while-over-limit", f"round {rno}: {start} batches active > max-nodes {m}, "
                                                     f"yet {len(r['new_ids'])} more were submitted"))
        if any(o[0] == "submit" for o in r["ops"]):
            probs.append(("batch-handed-to-full-queue", f"round {rno}: a batch was handed to the queue while it was full; it is "
                                                        "recorded as submitted but never reaches the HPC"))
        # what the round persists = the ids the snapshot reported active + the ids sbatch returned
        if not r["error"] and r["snapshot"] is not None:
            want = sorted(set(i for i in r["persisted_before"] if i in r["snapshot"]) | set(r["new_ids"]))
            if sorted(r["persisted_after"]) != want:
                probs.append(("persisted-ids", f"round {rno}: persisted active ids {sorted(r['persisted_after'])}, expected {want} "
                                               f"(snapshot {r['snapshot']}, new {r['new_ids']})"))
    return probs
