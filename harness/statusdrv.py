"""Correspondence driver for Status.v against the real jade.jobs.cluster.Cluster.

A *history* is a job table spec (names, blockers, cancel flags -> real GenericCommandConfiguration ->
real Cluster.create on a real directory) followed by operations executed through the real Cluster
methods (update_job_status with real Job objects the way HpcSubmitter passes them - the cluster's own,
already mutated objects - or with copies, mark_complete, mark_canceled, prepare_for_resubmission,
promote/demote, complete_hpc_job_id, a fresh deserialisation).  After every operation the files are
read back through the public API and compared with `Status.trace` evaluated by coqc.

Operations are plain dicts (they go into replay files):
  {"op": "round", "pre": [["cancel", n] | ["shrink", n, [b..]]], "submitted": [n..], "blocked": [[n, [b..]]..],
   "canceled": [n..], "completed": [n..] (iteration order of the set), "hpc": [id..], "batch": k,
   "new_rows": [n..], "aliased": bool}
  {"op": "mark_complete"} {"op": "mark_canceled"} {"op": "resubmit", "rerun": [n..], "upd": {n: [b..]}}
  {"op": "reload"} {"op": "promote"} {"op": "demote"} {"op": "complete_hpc", "id": id}
"""
import contextlib
import logging
import json
import os
import re
import shutil
import tempfile

from harness import core, jadeenv
from harness.core import cN, cZ, cbool, clist

IMPORTS = "From Coq Require Import List ZArith NArith Bool.\nFrom Jade Require Import Base Status."
TRACE_FN = "fun c => let s := create (fst c) in let '(l, e) := trace s (snd c) in (observe s :: l, e)"
TRACE_IN = "list (N * list N * bool) * list op"
TRACE_OUT = "list obs * option err"
STATE = {"not_submitted": "NOT_SUBMITTED", "submitted": "SUBMITTED", "done": "DONE"}


def idx(name):
    m = re.fullmatch(r"j(\d+)", name)
    if m:
        return int(m.group(1))
    m = re.fullmatch(r"zz(\d+)", name)
    if m:
        return 900 + int(m.group(1))
    raise ValueError(name)


def nm(name):
    return cN(idx(name))


def nlist(names_):
    return clist([nm(x) for x in names_])


def hid(i):
    return cN(int(i))


# ---- terms ---------------------------------------------------------------------------------------
def spec_term(spec):
    return clist([f"({nm(j['name'])}, {nlist(j['deps'])}, {cbool(j['cancel'])})" for j in spec])


def op_term(op):
    k = op["op"]
    if k == "round":
        pre = []
        for p in op["pre"]:
            pre.append(f"PreCancel {nm(p[1])}" if p[0] == "cancel" else f"PreShrink {nm(p[1])} {nlist(p[2])}")
        blocked = clist([f"({nm(n)}, {nlist(bs)})" for n, bs in op["blocked"]])
        return (f"OpRound {{| ra_pre := {clist(pre)}; ra_submitted := {nlist(op['submitted'])}; ra_blocked := {blocked}; "
                f"ra_canceled := {nlist(op['canceled'])}; ra_completed := {nlist(op['completed'])}; "
                f"ra_hpc := {clist([hid(i) for i in op['hpc']])}; ra_batch := {cZ(op['batch'])}; "
                f"ra_new_rows := {nlist(op.get('new_rows', []))} |}}")
    if k == "mark_complete":
        return "OpMarkComplete"
    if k == "mark_canceled":
        return "OpMarkCanceled"
    if k == "resubmit":
        upd = clist([f"({nm(n)}, {nlist(bs)})" for n, bs in sorted(op["upd"].items(), key=lambda t: idx(t[0]))])
        return f"OpResubmit {nlist(op['rerun'])} {upd}"
    if k == "reload":
        return "OpReload"
    if k == "promote":
        return "OpPromote"
    if k == "demote":
        return "OpDemote"
    if k == "complete_hpc":
        return f"OpCompleteHpc {hid(op['id'])}"
    raise ValueError(k)


def snap_term(s):
    jobs = clist([f"{{| j_name := {nm(j['name'])}; j_state := {STATE[j['state']]}; j_blocked := {nlist(j['blocked_by'])}; "
                  f"j_cancel := {cbool(j['cancel'])} |}}" for j in s["jobs"]])
    js = (f"{{| js_jobs := {jobs}; js_hpc := {clist([hid(i) for i in s['hpc']])}; js_batch := {cZ(s['batch_index'])}; "
          f"js_version := {cZ(s['js_version'])} |}}")
    sm = (f"{{| sm_complete := {cbool(s['is_complete'])}; sm_canceled := {cbool(s['is_canceled'])}; sm_num := {cZ(s['num_jobs'])}; "
          f"sm_completed := {cZ(s['completed_jobs'])}; sm_not_submitted := {cZ(s['not_submitted_jobs'])}; sm_js := {js} |}}")
    ac = s["all_complete"]
    acs = "Err EAssert" if ac == "EAssert" else f"Ok {cbool(ac)}"
    return f"({sm}, {cZ(s['cfg_version'])}, {cbool(s['has_submitter'])}, {acs})"


def trace_term(snaps, err):
    return f"({clist([snap_term(s) for s in snaps])}, {'None' if err is None else '(Some ' + err + ')'})"


# ---- the real thing ------------------------------------------------------------------------------
def _unlock(out):
    lock = os.path.join(out, "cluster_config.json.lock")
    if os.path.exists(lock):
        os.remove(lock)


def observe(out):
    """Read the persisted status back through the public API."""
    from jade.jobs.cluster import Cluster
    o = Cluster.deserialize(out, deserialize_jobs=True)[0]
    summ = o.get_status_summary(include_jobs=True)
    try:
        ac = bool(o.are_all_jobs_complete())
    except AssertionError:
        ac = "EAssert"
        _unlock(out)
    js = summ["job_status"]
    with open(os.path.join(out, "config_version.txt")) as f:
        cvf = int(f.read().strip())
    with open(os.path.join(out, "job_status_version.txt")) as f:
        jvf = int(f.read().strip())
    return {
        "is_complete": summ["is_complete"], "is_canceled": summ["is_canceled"], "num_jobs": summ["num_jobs"],
        "completed_jobs": summ["completed_jobs"], "not_submitted_jobs": summ["not_submitted_jobs"],
        "submitted_jobs": o.config.submitted_jobs,
        "jobs": [{"name": j["name"], "state": j["state"].value, "blocked_by": sorted(j["blocked_by"], key=idx),
                  "cancel": j["cancel_on_blocking_job_failure"]} for j in js["jobs"]],
        "hpc": list(js["hpc_job_ids"]), "batch_index": js["batch_index"], "js_version": js["version"],
        "cfg_version": o.config.version, "has_submitter": o.has_submitter(), "all_complete": ac,
        "cfg_version_file": cvf, "js_version_file": jvf,
    }


PROBE = {"writes_seen": 0, "writes_without_lock": 0}


class watch_unlocked:
    """Schedule probe: a reader (what `jade show-status` does) is run right after every file write that
    Cluster makes while the cluster lock is NOT held; what it reads goes to `sink` as (file, snapshot).
    Writes made under the lock cannot be observed by a reader, so they are skipped."""

    def __init__(self, out, sink):
        self.out, self.sink = out, sink

    def __enter__(self):
        from jade.jobs.cluster import Cluster
        self.cls = Cluster
        self.orig = Cluster.__dict__["_serialize_file"]
        orig_fn = Cluster._serialize_file
        out, sink = self.out, self.sink

        def probe(text, filename):
            orig_fn(text, filename)
            PROBE["writes_seen"] += 1
            if os.path.dirname(os.path.abspath(filename)) == os.path.abspath(out) and \
                    not os.path.exists(os.path.join(out, "cluster_config.json.lock")):
                PROBE["writes_without_lock"] += 1
                sink.append((os.path.basename(filename), observe(out)))
        Cluster._serialize_file = staticmethod(probe)
        return self

    def __exit__(self, *a):
        self.cls._serialize_file = self.orig


def unlocked_problems(ops, mid):
    """mid: [(op index, file written, snapshot read right after it)] -> (signature, message)"""
    p = []
    for k, fname, snap in mid:
        inv = [x for x in inv_problems(snap) if x[0] != "version-file"]
        if inv:
            method = {"round": "update_job_status", "resubmit": "prepare_for_resubmission"}.get(ops[k]["op"], ops[k]["op"])
            p.append((f"status-inv@unlocked-write:{method}",
                      f"op {k} ({ops[k]['op']}) wrote {fname} without holding the cluster lock; a reader scheduled right after "
                      f"that write sees: {inv[0][1]}"))
    return p


class Rig:
    """One real Cluster on a real directory."""

    def __init__(self, spec, tmp):
        from jade.jobs.cluster import Cluster
        self.spec = spec
        sc = {"jobs": [{"name": j["name"], "deps": j["deps"], "cancel": j["cancel"], "group": "g"} for j in spec],
              "groups": [{"name": "g", "size": 4}], "max_nodes": None}
        self.cfg = jadeenv.make_config(sc)
        self.out = tempfile.mkdtemp(prefix="st_", dir=tmp)
        self.cl = Cluster.create(self.out, self.cfg)
        self.mid = []      # (op index, file, snapshot) read by the schedule probe
        self.nops = 0

    def close(self):
        shutil.rmtree(self.out, ignore_errors=True)

    def table(self):
        return {j.name: j for j in self.cl.job_status.jobs}

    def apply(self, op):
        """Execute one operation on the real Cluster.  -> None | 'EAssert' | 'EKey' | 'EValue'"""
        sink = []
        k = self.nops
        self.nops += 1
        try:
            with watch_unlocked(self.out, sink):
                self._apply(op)
            self.mid += [(k, f, sn) for f, sn in sink]
            return None
        except AssertionError:
            err = "EAssert"
        except KeyError:
            err = "EKey"
        except ValueError:
            err = "EValue"
        _unlock(self.out)
        return err

    def _apply(self, op):
        from jade.jobs.cluster import Cluster
        from jade.models import Job, JobState
        k = op["op"]
        cl = self.cl
        if k == "round":
            tab = self.table()
            # what HpcSubmitter._update_completed_jobs / _cancel_job do to the cluster's own objects
            for p in op["pre"]:
                job = tab[p[1]]
                if p[0] == "cancel":
                    job.state = JobState.DONE
                    job.blocked_by.clear()
                else:
                    keep = set(p[2])
                    job.blocked_by.intersection_update(keep)
                    job.blocked_by.update(keep)

            def obj(name, blocked=None):
                if op.get("aliased", True) and name in tab and (blocked is None or set(blocked) == tab[name].blocked_by):
                    return tab[name]
                state = tab[name].state if name in tab else JobState.NOT_SUBMITTED
                return Job(name=name, blocked_by=set(blocked or []), cancel_on_blocking_job_failure=False, state=state)
            submitted = [obj(n) for n in op["submitted"]]
            blocked = [obj(n, bs) for n, bs in op["blocked"]]
            canceled = [obj(n) for n in op["canceled"]]
            completed = set()
            for n in op["completed"]:
                completed.add(n)
            if list(completed) != list(op["completed"]):
                # keep the recorded iteration order (an ordered iterable is accepted by the code as well)
                completed = list(op["completed"])
            cl.update_job_status(submitted, blocked, canceled, completed, [str(i) for i in op["hpc"]], op["batch"])
        elif k == "mark_complete":
            cl.mark_complete()
        elif k == "mark_canceled":
            cl.mark_canceled()
        elif k == "resubmit":
            cl.prepare_for_resubmission(set(op["rerun"]) if len(set(op["rerun"])) == len(op["rerun"]) else list(op["rerun"]),
                                        {n: set(bs) for n, bs in op["upd"].items()})
        elif k == "reload":
            self.cl = Cluster.deserialize(self.out, deserialize_jobs=True)[0]
        elif k == "promote":
            cl.promote_to_submitter()
        elif k == "demote":
            cl.demote_from_submitter()
        elif k == "complete_hpc":
            cl.complete_hpc_job_id(str(op["id"]))
        else:
            raise RuntimeError(k)


def run_history(spec, ops, tmp, mid=None):
    """-> (snapshots [after create, after each successful op], error or None); `mid` (a list) receives
    what the schedule probe read after unlocked writes"""
    rig = Rig(spec, tmp)
    try:
        snaps = [observe(rig.out)]
        err = None
        for op in ops:
            err = rig.apply(op)
            if err is not None:
                break
            snaps.append(observe(rig.out))
        if mid is not None:
            mid.extend(rig.mid)
        return snaps, err
    finally:
        rig.close()


# ---- property oracles over impl's own snapshots -------------------------------------------------------
def inv_problems(s, rows=None):
    """status_inv of one persisted snapshot -> list of (signature, message)"""
    p = []
    n_done = sum(1 for j in s["jobs"] if j["state"] == "done")
    n_sub = sum(1 for j in s["jobs"] if j["state"] == "submitted")
    sub, comp, num = s["submitted_jobs"], s["completed_jobs"], s["num_jobs"]
    if not (0 <= comp <= sub <= num):
        p.append(("counters-order", f"not 0 <= completed({comp}) <= submitted({sub}) <= total({num})"))
    if comp != n_done:
        p.append(("completed-count", f"completed_jobs={comp} but {n_done} jobs are marked done"))
    if sub != n_sub + n_done:
        p.append(("submitted-count", f"submitted_jobs={sub} but {n_sub}+{n_done} jobs are marked submitted or done"))
    if num != len(s["jobs"]):
        p.append(("num-jobs", f"num_jobs={num} but the job table has {len(s['jobs'])} entries"))
    if s["not_submitted_jobs"] != num - sub:
        p.append(("summary-not-submitted", "summary's not_submitted_jobs is not num_jobs - submitted_jobs"))
    for j in s["jobs"]:
        if j["state"] != "not_submitted" and j["blocked_by"]:
            p.append(("blocked-after-submit", f"job {j['name']} is {j['state']} with blocked_by={j['blocked_by']}"))
    if s["cfg_version"] != s["cfg_version_file"] or s["js_version"] != s["js_version_file"]:
        p.append(("version-file", "version file differs from the version inside the JSON file"))
    if s["all_complete"] == "EAssert":
        p.append(("are-all-complete-assert", "are_all_jobs_complete() raised its internal assertion"))
    elif s["all_complete"] != (n_done == len(s["jobs"])):
        p.append(("are-all-complete", f"are_all_jobs_complete()={s['all_complete']} but done={n_done}/{len(s['jobs'])}"))
    if rows is not None:
        for j in s["jobs"]:
            if j["state"] == "done" and j["name"] not in rows:
                p.append(("done-without-result", f"job {j['name']} is done without a recorded result"))
    return p


_RANK = {"not_submitted": 0, "submitted": 1, "done": 2}


def _cfg_part(s):
    return (s["is_complete"], s["is_canceled"], s["num_jobs"], s["completed_jobs"], s["submitted_jobs"], s["has_submitter"])


def _js_part(s):
    return (json.dumps(s["jobs"], sort_keys=True), tuple(s["hpc"]), s["batch_index"])


def mono_problems(a, b):
    """a observed before b, no resubmission in between"""
    p = []
    if b["submitted_jobs"] < a["submitted_jobs"] or b["completed_jobs"] < a["completed_jobs"]:
        p.append(("counter-decreased", f"counters went from {a['submitted_jobs']}/{a['completed_jobs']} to "
                                        f"{b['submitted_jobs']}/{b['completed_jobs']}"))
    if b["num_jobs"] != a["num_jobs"] or [j["name"] for j in a["jobs"]] != [j["name"] for j in b["jobs"]]:
        p.append(("job-table-changed", "job table / num_jobs changed"))
    else:
        for ja, jb in zip(a["jobs"], b["jobs"]):
            if _RANK[jb["state"]] < _RANK[ja["state"]]:
                p.append(("state-went-back", f"job {ja['name']}: {ja['state']} -> {jb['state']}"))
            if not set(jb["blocked_by"]) <= set(ja["blocked_by"]):
                p.append(("blocked-by-grew", f"job {ja['name']}: blocked_by {ja['blocked_by']} -> {jb['blocked_by']}"))
    if a["is_complete"] and not b["is_complete"]:
        p.append(("complete-reverted", "is_complete went from true to false without a resubmission"))
    if a["is_canceled"] and not b["is_canceled"]:
        p.append(("canceled-reverted", "is_canceled went from true to false"))
    return p + version_problems(a, b)


def version_problems(a, b):
    """a observed before b (resubmissions in between allowed): versions never decrease and increase
    strictly when the file they version differs"""
    p = []
    if b["cfg_version"] < a["cfg_version"] or b["js_version"] < a["js_version"]:
        p.append(("version-decreased", "a version number decreased"))
    if _cfg_part(a) != _cfg_part(b) and not b["cfg_version"] > a["cfg_version"]:
        p.append(("config-version-not-bumped", f"cluster config changed without a version increase ({a['cfg_version']} -> {b['cfg_version']})"))
    if _js_part(a) != _js_part(b) and not b["js_version"] > a["js_version"]:
        p.append(("job-status-version-not-bumped", f"job status changed without a version increase ({a['js_version']} -> {b['js_version']})"))
    return p


def _partial_resubmit(op, before):
    """input class of a resubmission: some job that is not rerun was never submitted (what
    `resubmit-jobs --no-missing` hands over after a canceled / force-completed submission)"""
    return any(j["state"] == "not_submitted" and j["name"] not in op["rerun"] for j in before["jobs"])


def history_problems(ops, snaps, err, rows_after=None):
    """Oracles for a history whose operations satisfy the preconditions real callers guarantee.
    rows_after[i] = names with a result row after op i.  -> list of (signature, message)"""
    p = []
    if err is not None:
        p.append(("valid-op-exception", f"operation {len(snaps) - 1} ({ops[len(snaps) - 1]['op']}) raised {err}"))
    base = 0
    partial = False
    for i, s in enumerate(snaps):
        rows = rows_after[i] if rows_after is not None else None
        if i > 0 and ops[i - 1]["op"] == "resubmit":
            base = i
            partial = partial or _partial_resubmit(ops[i - 1], snaps[i - 1])
            if s["is_complete"]:
                p.append(("resubmit-still-complete", "is_complete still true after prepare_for_resubmission"))
            for sig, msg in version_problems(snaps[i - 1], s):
                p.append(("monotone:" + sig, f"across the resubmission (op {i}): {msg}"))
        inv = inv_problems(s, rows)
        counted = [x for x in inv if x[0] in ("submitted-count", "counters-order")]
        if counted and partial:
            # one signature for everything that follows from a miscounting resubmission of this class
            p.append(("status-inv:submitted-count@resubmit-partial",
                      f"after op {i} (a resubmission left never-submitted jobs out of the rerun set before): {counted[0][1]}"))
            return p
        for sig, msg in inv:
            p.append(("status-inv:" + sig, f"after op {i}: {msg}"))
        for k in sorted({base, max(base, i - 1)}):
            if k < i:
                for sig, msg in mono_problems(snaps[k], s):
                    p.append(("monotone:" + sig, f"between op {k} and op {i}: {msg}"))
    return p


# ---- generators ------------------------------------------------------------------------------------------
def gen_spec(rng, max_jobs=6):
    n = rng.randint(1, max_jobs)
    names_ = [f"j{i}" for i in range(1, n + 1)]
    order = names_[:]
    rng.shuffle(order)
    pos = {x: i for i, x in enumerate(order)}
    spec = []
    for x in names_:
        deps = [y for y in names_ if pos[y] < pos[x] and rng.random() < 0.4]
        spec.append({"name": x, "deps": deps, "cancel": rng.random() < 0.5})
    return spec


class Mirror:
    """Generator-side bookkeeping (what a submitter process knows): the table as last persisted, the
    result rows, the outstanding ids.  Updated only from what the generator itself emitted - valid
    operations have a determined effect - and cross-checked against impl's snapshots by the caller."""

    def __init__(self, spec):
        self.jobs = {j["name"]: {"state": "not_submitted", "blocked": set(j["deps"]), "cancel": j["cancel"]} for j in spec}
        self.order = [j["name"] for j in spec]
        self.deps = {j["name"]: set(j["deps"]) for j in spec}
        self.rows = set()
        self.hpc = []
        self.batch = 1
        self.next_id = 100
        self.complete = False
        self.canceled = False
        self.submitter = True

    def sync(self, snap):
        for j in snap["jobs"]:
            self.jobs[j["name"]]["state"] = j["state"]
            self.jobs[j["name"]]["blocked"] = set(j["blocked_by"])
        self.hpc = list(snap["hpc"])
        self.batch = snap["batch_index"]
        self.complete = snap["is_complete"]
        self.canceled = snap["is_canceled"]
        self.submitter = snap["has_submitter"]


def gen_valid_round(rng, m, p_complete=0.6):
    """A round the way HpcSubmitter.run produces it: results collected for some SUBMITTED jobs, the
    cancellation/unblocking loop of _update_completed_jobs, batches of unblocked jobs."""
    tab = {n: {"state": j["state"], "blocked": set(j["blocked"]), "cancel": j["cancel"]} for n, j in m.jobs.items()}
    sub_now = [n for n in m.order if tab[n]["state"] == "submitted"]
    finished = [n for n in sub_now if rng.random() < p_complete]
    failed = {n for n in finished if rng.random() < 0.35}
    newly, canceled, pre = [], [], []
    results = [(n, n in failed) for n in finished]
    while True:
        failed_now = set()
        for n, bad in results:
            if n not in newly:
                newly.append(n)
            if bad:
                failed_now.add(n)
        results = []
        rerun = False
        for n in m.order:
            j = tab[n]
            if j["state"] == "not_submitted" and j["blocked"]:
                if j["cancel"] and j["blocked"] & failed_now:
                    j["state"] = "done"
                    j["blocked"] = set()
                    pre.append(["cancel", n])
                    canceled.append(n)
                    results.append((n, True))
                    rerun = True
                else:
                    new = j["blocked"] - set(newly)
                    if new != j["blocked"]:
                        j["blocked"] = new
                        pre.append(["shrink", n, sorted(new, key=idx)])
        if not rerun:
            break
    completed_set = set()
    for n in newly:
        completed_set.add(n)
    submitted, blocked = [], []
    nbatches = 0
    if not m.canceled:
        chosen = set()
        for n in m.order:
            j = tab[n]
            if j["state"] != "not_submitted":
                continue
            if (not j["blocked"] or j["blocked"] <= chosen) and rng.random() < 0.6:
                submitted.append(n)
                chosen.add(n)
            elif j["blocked"] and rng.random() < 0.8:
                blocked.append([n, sorted(j["blocked"], key=idx)])
        nbatches = (1 + (len(submitted) > 2 and rng.random() < 0.5)) if submitted else 0
    hpc = [i for i in m.hpc if rng.random() < 0.6]
    for _ in range(nbatches):
        hpc.append(str(m.next_id))
        m.next_id += 1
    hpc = sorted(hpc)
    extra_rows = []
    return {"op": "round", "pre": pre, "submitted": submitted, "blocked": blocked, "canceled": canceled,
            "completed": list(completed_set), "hpc": hpc, "batch": m.batch + nbatches,
            "new_rows": list(newly) + extra_rows, "aliased": True}


def gen_valid_resubmit(rng, m):
    """Mostly what resubmit_jobs computes (a set of jobs closed under 'blocked by a rerun job', blockers
    = configured blockers that are rerun); the seed set is either everything not done plus some done
    jobs (default options) or an arbitrary subset (--no-missing / --no-failed / --successful)."""
    if rng.random() < 0.6:
        rerun = {n for n in m.order if m.jobs[n]["state"] != "done" or rng.random() < 0.4}
    else:
        rerun = {n for n in m.order if rng.random() < 0.4}
    upd = {}
    if rng.random() < 0.9:
        changed = True
        while changed:
            changed = False
            for n in m.order:
                if m.deps[n] & rerun and n not in rerun:
                    rerun.add(n)
                    changed = True
    for n in m.order:
        if n in rerun and m.deps[n] & rerun:
            upd[n] = m.deps[n] & rerun
    return {"op": "resubmit", "rerun": sorted(rerun, key=idx), "upd": {n: sorted(b, key=idx) for n, b in upd.items()}}


def gen_valid_history(rng, tmp, max_ops=10, spec=None):
    """Random history of operations that satisfy the preconditions real callers guarantee; executed on
    the real Cluster while it is generated (the next operation depends on what impl persisted).
    -> (spec, ops, snaps, err, rows_after)"""
    spec = spec or gen_spec(rng)
    rig = Rig(spec, tmp)
    try:
        m = Mirror(spec)
        snaps = [observe(rig.out)]
        rows_after = [set()]
        ops = []
        err = None
        nops = rng.randint(2, max_ops)
        for _ in range(nops):
            m.sync(snaps[-1])
            r = rng.random()
            all_done = all(j["state"] == "done" for j in m.jobs.values())
            if m.complete:
                if r < 0.5:
                    op = gen_valid_resubmit(rng, m)
                elif r < 0.6:
                    op = {"op": "mark_canceled"}
                elif r < 0.8:
                    op = {"op": "reload"}
                else:
                    op = {"op": "demote"} if m.submitter else {"op": "promote"}
            elif (all_done or (not m.hpc and rng.random() < 0.3)) and r < 0.7:
                op = {"op": "mark_complete"}
            elif r < 0.66:
                op = gen_valid_round(rng, m)
            elif r < 0.72:
                op = {"op": "mark_canceled"}
            elif r < 0.82:
                op = {"op": "reload"}
            elif r < 0.9:
                op = {"op": "demote"} if m.submitter else {"op": "promote"}
            elif m.hpc:
                op = {"op": "complete_hpc", "id": rng.choice(m.hpc)}
            else:
                op = {"op": "promote"}
            ops.append(op)
            err = rig.apply(op)
            if err is not None:
                break
            snaps.append(observe(rig.out))
            rows = set(rows_after[-1])
            if op["op"] == "round":
                rows |= set(op["new_rows"])
            elif op["op"] == "resubmit":
                rows -= set(op["rerun"])
            rows_after.append(rows)
            m.rows = rows
        return spec, ops, snaps, err, rows_after, list(rig.mid)
    finally:
        rig.close()


MUTATIONS = ["submit-submitted", "submit-done", "submit-dup", "submit-unknown", "blocked-submitted", "blocked-unknown",
             "blocked-grown-copy", "complete-processed", "complete-not-submitted", "complete-done", "complete-unknown",
             "canceled-extra", "cancel-unlisted", "complete-twice", "resubmit-incomplete", "resubmit-unknown",
             "resubmit-partial", "demote-none", "hpc-absent", "copies"]


def mutate_op(rng, m, kind):
    """An operation that breaks one precondition (malformed stream).  None if not applicable."""
    by = lambda st: [n for n in m.order if m.jobs[n]["state"] == st]
    base = gen_valid_round(rng, m)
    if kind == "submit-submitted" and by("submitted"):
        base["submitted"].append(rng.choice(by("submitted")))
    elif kind == "submit-done" and by("done"):
        base["submitted"].insert(0, rng.choice(by("done")))
    elif kind == "submit-dup" and base["submitted"]:
        base["submitted"].append(base["submitted"][0])
    elif kind == "submit-unknown":
        base["submitted"].append("zz1")
    elif kind == "blocked-submitted" and by("submitted"):
        base["blocked"].append([rng.choice(by("submitted")), []])
        base["aliased"] = False
    elif kind == "blocked-unknown":
        base["blocked"].append(["zz2", []])
    elif kind == "blocked-grown-copy" and by("not_submitted"):
        n = rng.choice(by("not_submitted"))
        if n in base["submitted"] or n in base["canceled"]:
            return None
        base["blocked"] = [b for b in base["blocked"] if b[0] != n] + [[n, sorted(set(m.order) - {n}, key=idx)]]
        base["aliased"] = False
    elif kind == "complete-processed" and (base["submitted"] or base["blocked"]):
        n = rng.choice(base["submitted"] + [b[0] for b in base["blocked"]])
        base["completed"] = list(base["completed"]) + [n]
    elif kind == "complete-not-submitted" and by("not_submitted"):
        cands = [n for n in by("not_submitted") if n not in base["submitted"] and n not in [b[0] for b in base["blocked"]]
                 and n not in base["canceled"]]
        if not cands:
            return None
        base["completed"] = list(base["completed"]) + [rng.choice(cands)]
    elif kind == "complete-done" and by("done"):
        base["completed"] = list(base["completed"]) + [rng.choice(by("done"))]
    elif kind == "complete-unknown":
        base["completed"] = list(base["completed"]) + ["zz3"]
    elif kind == "canceled-extra" and m.order:
        base["canceled"] = list(base["canceled"]) + [rng.choice(m.order)]
    elif kind == "cancel-unlisted" and by("not_submitted"):
        cands = [n for n in by("not_submitted") if n not in base["submitted"] and n not in base["canceled"]]
        if not cands:
            return None
        n = rng.choice(cands)
        base["pre"] = base["pre"] + [["cancel", n]]
        base["blocked"] = [b for b in base["blocked"] if b[0] != n]
    elif kind == "complete-twice":
        return {"op": "mark_complete"} if m.complete else None
    elif kind == "resubmit-incomplete":
        return None if m.complete else gen_valid_resubmit(rng, m)
    elif kind == "resubmit-unknown" and m.complete:
        op = gen_valid_resubmit(rng, m)
        op["rerun"].append("zz4")
        return op
    elif kind == "resubmit-partial" and m.complete:
        # what `resubmit-jobs --no-missing` can hand over: some unfinished jobs are not rerun
        rerun = [n for n in m.order if rng.random() < 0.4]
        return {"op": "resubmit", "rerun": rerun, "upd": {n: sorted(m.deps[n] & set(rerun), key=idx) for n in rerun
                                                            if m.deps[n] & set(rerun)}}
    elif kind == "demote-none":
        return None if m.submitter else {"op": "demote"}
    elif kind == "hpc-absent":
        return {"op": "complete_hpc", "id": "7"}
    elif kind == "copies":
        base["aliased"] = False
    else:
        return None
    # set iteration order of the (possibly extended) completed names
    s = set()
    for n in base["completed"]:
        s.add(n)
    if len(s) == len(base["completed"]):
        base["completed"] = list(s)
    return base


def gen_malformed_history(rng, tmp, max_ops=8):
    """valid prefix, then operations each breaking one precondition (the history goes on while impl
    raises nothing: the model has to follow impl on garbage as well)"""
    spec = gen_spec(rng)
    rig = Rig(spec, tmp)
    try:
        m = Mirror(spec)
        snaps = [observe(rig.out)]
        ops, kinds = [], []
        err = None
        nops = rng.randint(1, max_ops)
        bad_from = rng.randint(0, max(0, nops - 1))
        for i in range(nops):
            m.sync(snaps[-1])
            op = None
            if i >= bad_from and rng.random() < 0.7:
                kind = rng.choice(MUTATIONS)
                op = mutate_op(rng, m, kind)
                if op is not None:
                    kinds.append(kind)
            if op is None:
                r = rng.random()
                if m.complete and r < 0.4:
                    op = gen_valid_resubmit(rng, m)
                elif r < 0.75:
                    op = gen_valid_round(rng, m)
                elif r < 0.85 and not m.complete:
                    op = {"op": "mark_complete"}
                else:
                    op = {"op": "reload"}
            ops.append(op)
            err = rig.apply(op)
            if err is not None:
                break
            snaps.append(observe(rig.out))
        return spec, ops, snaps, err, kinds
    finally:
        rig.close()


def directed_histories():
    """(label, spec, ops, valid?)"""
    J = lambda n, deps=(), cancel=False: {"name": n, "deps": list(deps), "cancel": cancel}
    R = lambda **kw: dict({"op": "round", "pre": [], "submitted": [], "blocked": [], "canceled": [], "completed": [],
                           "hpc": [], "batch": 1, "new_rows": [], "aliased": True}, **kw)
    out = []
    chain = [J("j1"), J("j2", ["j1"], True), J("j3", ["j2"], True), J("j4", ["j1"], False)]
    # failure of j1 cancels j2 then j3 (two passes of the loop), j4 only loses its blocker
    out.append(("cancel-chain", chain, [
        R(submitted=["j1"], blocked=[["j2", ["j1"]], ["j3", ["j2"]], ["j4", ["j1"]]], hpc=["100"], batch=2),
        R(pre=[["cancel", "j2"], ["shrink", "j4", []], ["cancel", "j3"]], canceled=["j2", "j3"],
          completed=["j1", "j2", "j3"], new_rows=["j1", "j2", "j3"], submitted=["j4"], hpc=["101"], batch=3),
        R(completed=["j4"], new_rows=["j4"], hpc=[], batch=3),
        {"op": "mark_complete"}, {"op": "demote"},
        {"op": "reload"}, {"op": "promote"},
        {"op": "resubmit", "rerun": ["j1", "j2", "j3", "j4"], "upd": {"j2": ["j1"], "j3": ["j2"], "j4": ["j1"]}},
        R(submitted=["j1", "j2", "j3", "j4"], hpc=["102"], batch=4),
        R(completed=["j1", "j2", "j3", "j4"], new_rows=["j1", "j2", "j3", "j4"], hpc=[], batch=4),
        {"op": "mark_complete"}], True))
    # blocked job batched together with its blocker (try_add_blocked_jobs): blocked_by is cleared on submit
    out.append(("batched-with-blocker", chain[:2], [R(submitted=["j1", "j2"], hpc=["100"], batch=2),
                                                    R(completed=["j2", "j1"], new_rows=["j1", "j2"], batch=2),
                                                    {"op": "mark_complete"}], True))
    # nothing changes: the config version stays, the job-status version still moves
    out.append(("idle-rounds", chain[:2], [R(), R(), {"op": "reload"}, R(), {"op": "mark_canceled"}, {"op": "mark_canceled"},
                                           R(hpc=["5"]), {"op": "complete_hpc", "id": "5"}], True))
    # D1 family: the same job handed over twice in one round -> first assertion
    out.append(("duplicate-submitted", chain[:2], [R(submitted=["j1", "j1"], hpc=["100"], batch=2)], False))
    out.append(("done-job-resubmitted-silently", chain[:2], [R(submitted=["j1"], batch=2), R(completed=["j1"], new_rows=["j1"], batch=2),
                                                             R(submitted=["j1"], batch=3)], False))
    out.append(("blocked-and-completed", chain[:2], [R(submitted=["j1"], batch=2),
                                                     R(blocked=[["j2", ["j1"]]], completed=["j2"], batch=2)], False))
    out.append(("mark-complete-twice", chain[:1], [{"op": "mark_complete"}, {"op": "mark_complete"}], False))
    out.append(("resubmit-not-complete", chain[:1], [{"op": "resubmit", "rerun": ["j1"], "upd": {}}], False))
    out.append(("demote-twice", chain[:1], [{"op": "demote"}, {"op": "demote"}], False))
    out.append(("hpc-id-absent", chain[:1], [{"op": "complete_hpc", "id": "3"}], False))
    out.append(("unknown-names", chain[:1], [R(completed=["zz1"])], False))
    out.append(("unknown-submitted", chain[:1], [R(submitted=["zz1"])], False))
    out.append(("complete-never-submitted", chain[:2], [R(completed=["j1"], new_rows=["j1"])], False))
    return out


# ---- whole submissions through the real HpcSubmitter / JobSubmitter ---------------------------------------
def gen_submission_scenario(rng, max_jobs=6):
    spec = gen_spec(rng, max_jobs)
    sc = {"jobs": [{"name": j["name"], "deps": j["deps"], "cancel": j["cancel"], "group": "g"} for j in spec],
          "groups": [{"name": "g", "size": rng.choice([1, 2, 3]), "try": rng.random() < 0.4}],
          "max_nodes": rng.choice([1, 2, None])}
    return spec, sc


class Submission:
    """A real submission directory driven the way the CLIs drive it: `submit-jobs` (JobSubmitter.create,
    Cluster.create, HpcSubmitter.run), `try-submit-jobs` processes (Cluster.deserialize + promote,
    JobSubmitter.load().submit_jobs -> HpcSubmitter.run -> _handle_completion -> mark_complete, demote),
    `cancel-jobs`, `resubmit-jobs` (its own helper functions), with a scripted sbatch/squeue/scancel and
    node results written through the real ResultsAggregator.  Every Cluster call that persists something
    is recorded as a model operation together with what can be read back afterwards."""

    def __init__(self, spec, sc, tmp, rng):
        import jade.hpc.slurm_manager as sm
        from jade.jobs.cluster import Cluster
        from jade.jobs.job_submitter import JobSubmitter
        from jade.jobs.results_aggregator import ResultsAggregator
        self.rng = rng
        self.spec, self.sc = spec, sc
        self.out = tempfile.mkdtemp(prefix="sub_", dir=tmp)
        self.fake = jadeenv.FakeSlurm()
        self._sm, self._orig = sm, sm.run_command
        sm.run_command = self.fake
        self.ops, self.snaps, self.rows_after, self.events, self.mid = [], [], [], [], []
        self.error = None
        self.batches = {}       # index -> {"jobs": [...], "left": [...], "id": str}
        cfg = jadeenv.make_config(sc)
        self.mgr = JobSubmitter.create(cfg, output=self.out)
        self.cl = Cluster.create(self.out, self.mgr.config)
        ResultsAggregator.create(self.out)
        os.makedirs(os.path.join(self.out, "results"), exist_ok=True)
        self.snaps.append(observe(self.out))
        self.rows_after.append(self.rows())

    def close(self):
        self._sm.run_command = self._orig
        shutil.rmtree(self.out, ignore_errors=True)

    def rows(self):
        from jade.jobs.results_aggregator import ResultsAggregator
        return {r.name for r in ResultsAggregator.load(self.out).get_results_unsafe()}

    def record(self, op):
        self.ops.append(op)
        self.snaps.append(observe(self.out))
        self.rows_after.append(self.rows())

    def _instrument(self, cl):
        """wrap the persisting methods of this live Cluster object so that every call becomes an op"""
        mem0 = {j.name: (j.state.value, set(j.blocked_by)) for j in cl.job_status.jobs}
        rows0 = self.rows()
        orig_update, orig_complete = cl.update_job_status, cl.mark_complete

        def update(submitted, blocked, canceled, completed, hpc_ids, batch_index):
            pre = []
            canc = [j.name for j in canceled]
            for j in cl.job_status.jobs:
                st0, bl0 = mem0[j.name]
                if j.name in canc:
                    continue
                if j.state.value != st0:
                    self.events.append(("unexpected-premutation", j.name, st0, j.state.value))
                if set(j.blocked_by) != bl0:
                    pre.append(["shrink", j.name, sorted(j.blocked_by, key=idx)])
            pre += [["cancel", n] for n in canc]
            order = list(completed)
            op = {"op": "round", "pre": pre, "submitted": [j.name for j in submitted],
                  "blocked": [[j.name, sorted(j.blocked_by, key=idx)] for j in blocked], "canceled": canc,
                  "completed": order, "hpc": list(hpc_ids), "batch": batch_index, "aliased": True}
            orig_update(submitted, blocked, canceled, completed, hpc_ids, batch_index)
            op["new_rows"] = sorted(self.rows() - rows0, key=idx)
            self.record(op)
            for j in cl.job_status.jobs:
                mem0[j.name] = (j.state.value, set(j.blocked_by))

        def complete():
            orig_complete()
            self.record({"op": "mark_complete"})
        cl.update_job_status = update
        cl.mark_complete = complete

    def first_round(self):
        """jade submit-jobs: the creating process runs the first round itself"""
        self._instrument(self.cl)
        self._guard(lambda: self.mgr.submit_jobs(self.cl))
        if self.error is None:
            self.cl.demote_from_submitter()
            self.record({"op": "demote"})
        self._collect_batches()

    def _guard(self, fn):
        try:
            return fn()
        except Exception as e:  # the submitter round died
            self.error = type(e).__name__ + ": " + str(e)[:200]
            _unlock(self.out)
            marker = os.path.join(self.out, "submitter.lock")
            if os.path.exists(marker):
                os.remove(marker)
            return None

    def load_promote(self):
        from jade.jobs.cluster import Cluster
        cl = Cluster.deserialize(self.out, deserialize_jobs=True)[0]
        self.record({"op": "reload"})
        promoted = cl.promote_to_submitter()
        self.record({"op": "promote"})
        return cl, promoted

    def try_submit(self):
        """one `jade try-submit-jobs` process"""
        from jade.jobs.job_submitter import JobSubmitter
        cl, promoted = self.load_promote()
        if not promoted:
            return
        if cl.is_complete():
            cl.demote_from_submitter()
            self.record({"op": "demote"})
            return
        self._instrument(cl)
        mgr = JobSubmitter.load(self.out)
        self._guard(lambda: mgr.submit_jobs(cl))
        if self.error is None:
            cl.demote_from_submitter()
            self.record({"op": "demote"})
        self._collect_batches()

    def cancel(self):
        """`jade cancel-jobs` (without its trailing try-submit-jobs, which the caller runs)"""
        from jade.jobs.job_submitter import JobSubmitter
        cl, promoted = self.load_promote()
        if not promoted:
            return
        if cl.is_complete():
            cl.demote_from_submitter()
            self.record({"op": "demote"})
            return
        JobSubmitter.load(self.out).cancel_jobs(cl)
        self.record({"op": "mark_canceled"})
        cl.demote_from_submitter()
        self.record({"op": "demote"})
        for b in self.batches.values():
            if self.fake.jobs.get(b["id"], {}).get("state") == "CANCELLED":
                b["left"] = []

    def resubmit(self, failed=True, missing=True, successful=False):
        """`jade resubmit-jobs` with the given options: the real command function runs; what it persists is observed
        through wrappers on the Cluster methods it calls (no private helper of the command is named here, so that a
        refactoring of the command cannot break the driver)"""
        import jade.cli.resubmit_jobs as rs
        from jade.jobs.cluster import Cluster
        before = self.snaps[-1]
        drv = self
        state = {"rerun": None, "ran": False}
        orig_deser, orig_prep, orig_demote = Cluster.__dict__["deserialize"], Cluster.prepare_for_resubmission, Cluster.demote_from_submitter

        def deser(cls, *a, **kw):
            res = orig_deser.__func__(cls, *a, **kw)
            if kw.get("try_promote_to_submitter") and not state["ran"]:
                state["ran"] = True
                # one locked action in the command (load + promote): the load itself changes nothing on disk
                drv.ops.append({"op": "reload"})
                drv.snaps.append(drv.snaps[-1])
                drv.rows_after.append(drv.rows_after[-1])
                drv.record({"op": "promote"})
            return res

        def prep(cl, jobs, upd):
            rerun, upd2 = set(jobs), {n: set(b) for n, b in upd.items()}
            sink = []
            with watch_unlocked(drv.out, sink):
                orig_prep(cl, jobs, upd)
            drv.mid += [(len(drv.ops), f, sn) for f, sn in sink]
            partial = any(j["state"] == "not_submitted" and j["name"] not in rerun for j in before["jobs"])
            drv.record({"op": "resubmit", "rerun": sorted(rerun, key=idx), "upd": {n: sorted(b, key=idx) for n, b in upd2.items()},
                        "options": {"failed": failed, "missing": missing, "successful": successful}, "partial": partial})
            state["rerun"] = rerun
            drv._instrument(cl)

        def demote(cl):
            orig_demote(cl)
            drv.record({"op": "demote"})

        Cluster.deserialize = classmethod(deser)
        Cluster.prepare_for_resubmission = prep
        Cluster.demote_from_submitter = demote
        saved_handlers = {n: list(logging.getLogger(n).handlers) for n in ("", "jade", "_jade_event", "jade.cli.resubmit_jobs")}
        try:
            def go():
                try:
                    with open(os.devnull, "w") as dn, contextlib.redirect_stdout(dn), contextlib.redirect_stderr(dn):
                        rs.resubmit_jobs.callback(output=self.out, failed=failed, missing=missing, successful=successful,
                                                  submission_groups_file=None, verbose=False)
                except SystemExit:
                    pass
            self._guard(go)
        finally:
            Cluster.deserialize = orig_deser
            Cluster.prepare_for_resubmission = orig_prep
            Cluster.demote_from_submitter = orig_demote
            for n, hs in saved_handlers.items():      # the command configures logging: put the handlers back
                lg = logging.getLogger(n)
                for h in list(lg.handlers):
                    if h not in hs:
                        lg.removeHandler(h)
                        try:
                            h.close()
                        except Exception:   # noqa
                            pass
        self._collect_batches()
        return state["rerun"] is not None

    def _collect_batches(self):
        for ev in self.fake.log:
            if ev[0] == "sbatch":
                m = re.search(r"_batch_(\d+)\.sh$", ev[2])
                k = int(m.group(1))
                if k not in self.batches:
                    data = json.load(open(os.path.join(self.out, f"config_batch_{k}.json")))
                    names_ = [j["name"] for j in data["jobs"]]
                    self.batches[k] = {"jobs": names_, "left": list(names_), "id": ev[1], "failed": set()}

    def nodes_work(self, p_finish=0.6, p_fail=0.4, p_die=0.05):
        """compute nodes make progress: results appended to the node result files of their batch"""
        from jade.jobs.results_aggregator import ResultsAggregator
        from jade.result import Result
        from jade.enums import JobCompletionStatus
        deps = {j["name"]: set(j["deps"]) for j in self.spec}
        cancel = {j["name"]: j["cancel"] for j in self.spec}
        for k, b in sorted(self.batches.items()):
            if self.fake.jobs[b["id"]]["state"] not in ("PENDING", "RUNNING"):
                continue
            self.fake.jobs[b["id"]]["state"] = "RUNNING"
            if self.rng.random() < p_die:
                self.fake.jobs[b["id"]]["state"] = "GONE"     # walltime / node failure: the rest never reports
                self.events.append(("batch-died", k, list(b["left"])))
                continue
            while b["left"] and self.rng.random() < p_finish:
                n = b["left"].pop(0)
                if cancel[n] and deps[n] & b["failed"]:
                    res = Result(n, 1, JobCompletionStatus.CANCELED, 0.0, hpc_job_id=b["id"])
                    b["failed"].add(n)
                else:
                    rc = 1 if self.rng.random() < p_fail else 0
                    if rc:
                        b["failed"].add(n)
                    res = Result(n, rc, JobCompletionStatus.FINISHED, 1.0, hpc_job_id=b["id"])
                ResultsAggregator.append(self.out, res, batch_id=k)
            if not b["left"]:
                self.fake.jobs[b["id"]]["state"] = "GONE"


def run_submission(rng, tmp, spec=None, sc=None, script=None, max_procs=10):
    """-> dict(spec, scenario, ops, snaps, rows_after, error, events).  `script`: list of steps
    ("work" | "try" | "cancel" | ("resubmit", failed, missing, successful)); random if None."""
    if spec is None:
        spec, sc = gen_submission_scenario(rng)
    sub = Submission(spec, sc, tmp, rng)
    try:
        sub.first_round()
        steps = list(script) if script is not None else None
        n = 0
        resubmits = 0
        while sub.error is None and n < max_procs:
            n += 1
            if steps is not None:
                if not steps:
                    break
                st = steps.pop(0)
            else:
                done = sub.snaps[-1]["is_complete"]
                r = rng.random()
                if done:
                    if resubmits >= 2 or r < 0.25:
                        break
                    st = ("resubmit", rng.random() < 0.85, rng.random() < 0.8, rng.random() < 0.2)
                elif r < 0.04:
                    st = "cancel"
                elif r < 0.5:
                    st = "work"
                else:
                    st = "try"
            if st == "work":
                sub.nodes_work()
            elif st == "try":
                if steps is None:
                    sub.nodes_work()
                sub.try_submit()
            elif st == "cancel":
                sub.cancel()
            else:
                resubmits += 1
                sub.resubmit(*st[1:])
        return {"spec": spec, "scenario": sc, "ops": sub.ops, "snaps": sub.snaps, "rows_after": sub.rows_after,
                "error": sub.error, "events": sub.events, "mid": sub.mid}
    finally:
        sub.close()


def directed_submissions():
    """(label, spec, scenario, script)"""
    J = lambda n, deps=(), cancel=False: {"name": n, "deps": list(deps), "cancel": cancel}
    mk = lambda spec, size, nodes, tr=True: {"jobs": [dict(j, group="g") for j in spec],
                                             "groups": [{"name": "g", "size": size, "try": tr}], "max_nodes": nodes}
    two = [J("j1"), J("j2")]
    chain = [J("j1"), J("j2", ["j1"], True), J("j3", ["j2"], True), J("j4", ["j1"])]
    return [
        # cancel while j2 was never submitted, forced completion, then `resubmit-jobs --no-missing`
        ("cancel-then-resubmit-no-missing", two, mk(two, 1, 1), ["cancel", "try", ("resubmit", True, False, False)]),
        ("cancel-then-resubmit-default", two, mk(two, 1, 1), ["cancel", "try", ("resubmit", True, True, False)]),
        ("chain-to-completion-and-resubmit", chain, mk(chain, 2, None),
         ["work", "try", "work", "try", "work", "try", "work", "try", "try", ("resubmit", True, True, False), "work", "try", "work", "try"]),
    ]


# ---- exhaustive small scope: every round over a two-job table from five base states ------------------------
def exhaustive_rounds():
    """yields (spec, prefix + [op]) for all combinations of submitted lists (duplicates included),
    completed sets, pre-mutations, canceled lists and blocked entries over {j1, j2 (blocked by j1)}"""
    import itertools
    J = lambda n, deps=(), cancel=False: {"name": n, "deps": list(deps), "cancel": cancel}
    R = lambda **kw: dict({"op": "round", "pre": [], "submitted": [], "blocked": [], "canceled": [], "completed": [],
                           "hpc": [], "batch": 2, "new_rows": [], "aliased": True}, **kw)
    spec = [J("j1"), J("j2", ["j1"], True)]
    b1 = [R(submitted=["j1"], blocked=[["j2", ["j1"]]], hpc=["100"])]
    b3 = [R(submitted=["j1", "j2"], hpc=["100"])]
    bases = [[], b1, b1 + [R(completed=["j1"], pre=[["shrink", "j2", []]], new_rows=["j1"])], b3,
             b3 + [R(completed=["j1", "j2"], new_rows=["j1", "j2"])]]
    subs = [[], ["j1"], ["j2"], ["j1", "j1"], ["j1", "j2"], ["j2", "j1"], ["j2", "j2"]]
    comps = [[], ["j1"], ["j2"], ["j1", "j2"]]
    pres = [[], [["cancel", "j2"]], [["shrink", "j2", []]]]
    cancs = [[], ["j2"]]
    blks = [[], [["j2", ["j1"]]], [["j2", []]]]
    for base, sub, comp, pre, canc, blk in itertools.product(bases, subs, comps, pres, cancs, blks):
        yield spec, [dict(o) for o in base] + [R(submitted=sub, completed=comp, pre=pre, canceled=canc, blocked=blk,
                                                 hpc=["100"], batch=3, new_rows=comp)]
