"""Run the repository's pinned test command (guard off) and compare with /root/.vp/BASELINE.json."""
import json, os, subprocess, sys, tempfile
import xml.etree.ElementTree as ET
base = json.load(open("/root/.vp/BASELINE.json"))
junit = tempfile.mktemp(suffix=".xml")
env = dict(os.environ)
env.pop("NREL_JADE_VERIF", None)
subprocess.run(["/venv/bin/python", "-m", "pytest", "-ra", "-q", "-p", "no:cacheprovider", "--timeout=900",
                "--continue-on-collection-errors", f"--junitxml={junit}"], cwd="/repo", env=env,
               stdout=subprocess.DEVNULL, stderr=subprocess.DEVNULL)
passed = set()
for tc in ET.parse(junit).getroot().iter("testcase"):
    if not any(ch.tag in ("failure", "error", "skipped") for ch in tc):
        passed.add(f"{tc.get('classname')}::{tc.get('name')}")
os.remove(junit)
missing = [t for t in base["stable_pass"] if t not in passed]
print(f"baseline stable_pass={len(base['stable_pass'])} passed_now={len(passed)} missing={len(missing)}")
for m in missing:
    print("  MISSING", m)
sys.exit(1 if missing else 0)
