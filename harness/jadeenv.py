"""Helpers that build REAL jade objects (configuration, submission groups, cluster, HPC submitter)
from a plain-dict scenario, and a scripted stand-in for the sbatch/squeue/scancel executables that
produces and consumes real text in SLURM's formats.

scenario = {
  "jobs":   [{"name": str, "deps": [str], "cancel": bool, "est": int|None, "group": str, "rc": int}],
  "groups": [{"name": str, "size": int, "time": bool, "wall_min": int, "nproc": int|None, "try": bool,
              "dry": bool, "distributed": bool}],
  "max_nodes": int|None,
  "hooks": {"setup": bool, "teardown": bool, "node_setup": bool, "node_teardown": bool},
}
"""
import os
import re
import shutil
import tempfile


def make_group(g, max_nodes, extra=None):
    from jade.models import SubmitterParams, HpcConfig, SubmissionGroup
    wall = g.get("wall_min", 60)
    if g.get("local"):
        hpcc = HpcConfig(hpc_type="local", job_prefix=g["name"], hpc={})
    else:
        hpcc = HpcConfig(hpc_type="slurm", job_prefix=g["name"],
                         hpc={"account": "acct", "walltime": "%d:%02d:%02d" % (wall // 60, wall % 60, g.get("wall_sec", 0))})
    kw = dict(hpc_config=hpcc, per_node_batch_size=g.get("size", 500), max_nodes=max_nodes,
              time_based_batching=bool(g.get("time")), try_add_blocked_jobs=bool(g.get("try", True)),
              dry_run=bool(g.get("dry")), distributed_submitter=bool(g.get("distributed", True)),
              resource_monitor_type="none", generate_reports=bool(g.get("reports", False)), poll_interval=1)
    if g.get("nproc") is not None:
        kw["num_processes"] = g["nproc"]
    if extra:
        kw.update(extra)
    return SubmissionGroup(name=g["name"], submitter_params=SubmitterParams(**kw))


def make_config(sc):
    from jade.extensions.generic_command.generic_command_configuration import GenericCommandConfiguration
    from jade.extensions.generic_command.generic_command_parameters import GenericCommandParameters
    cfg = GenericCommandConfiguration()
    for j in sc["jobs"]:
        kw = dict(name=j["name"], command=j.get("command", "echo " + j["name"]), blocked_by=list(j.get("deps", [])),
                  cancel_on_blocking_job_failure=bool(j.get("cancel")), submission_group=j["group"])
        if j.get("est") is not None:
            kw["estimated_run_minutes"] = j["est"]
        cfg.add_job(GenericCommandParameters(**kw))
    for g in sc["groups"]:
        cfg.append_submission_group(make_group(g, sc.get("max_nodes")))
    hooks = sc.get("hooks") or {}
    if hooks.get("setup"):
        cfg.setup_command = "hook-setup"
    if hooks.get("teardown"):
        cfg.teardown_command = "hook-teardown"
    if hooks.get("node_setup"):
        cfg.node_setup_command = "hook-node-setup"
    if hooks.get("node_teardown"):
        cfg.node_teardown_command = "hook-node-teardown"
    return cfg


class FakeSlurm:
    """sbatch / squeue / scancel with real text formats.  States: PENDING, RUNNING, GONE, CANCELLED."""

    def __init__(self, first_id=100, sbatch_oks=None, on_event=None):
        self.jobs = {}          # id(str) -> {"script":..., "state":...}
        self.next_id = first_id
        self.sbatch_oks = list(sbatch_oks or [])
        self.log = []
        self.on_event = on_event or (lambda *a: None)
        self.squeue_fail = 0    # number of upcoming squeue invocations that fail

    def add_existing(self, n, state="RUNNING"):
        ids = []
        for _ in range(n):
            i = str(self.next_id)
            self.next_id += 1
            self.jobs[i] = {"script": None, "state": state}
            ids.append(i)
        return ids

    def squeue_text(self):
        lines = [f"{i:<20}{b['state']:<20}" for i, b in self.jobs.items() if b["state"] in ("PENDING", "RUNNING")]
        return "\n".join(lines) + ("\n" if lines else "")

    def __call__(self, cmd, output=None, **kw):
        cmd = str(cmd)
        if cmd.startswith("sbatch"):
            script = cmd.split()[1]
            ok = self.sbatch_oks.pop(0) if self.sbatch_oks else True
            self.on_event("sbatch-call", script, ok)
            if not ok:
                self.log.append(("sbatch-fail", script))
                if output is not None:
                    output["stdout"] = ""
                    output["stderr"] = "sbatch: error: Batch job submission failed: Socket timed out"
                return 1
            i = str(self.next_id)
            self.next_id += 1
            self.jobs[i] = {"script": script, "state": "PENDING"}
            self.log.append(("sbatch", i, script))
            if output is not None:
                output["stdout"] = f"Submitted batch job {i}\n"
                output["stderr"] = ""
            self.on_event("sbatch", i, script)
            return 0
        if cmd.startswith("squeue"):
            self.on_event("squeue-call")
            if self.squeue_fail > 0:
                self.squeue_fail -= 1
                if output is not None:
                    output["stdout"] = ""
                    output["stderr"] = "slurm_load_jobs error: Socket timed out on send/recv operation"
                return 1
            if output is not None:
                output["stdout"] = self.squeue_text()
                output["stderr"] = ""
            self.log.append(("squeue", sorted(i for i, b in self.jobs.items() if b["state"] in ("PENDING", "RUNNING"))))
            return 0
        if cmd.startswith("scancel"):
            i = cmd.split()[1]
            self.log.append(("scancel", i))
            self.on_event("scancel", i)
            if i in self.jobs and self.jobs[i]["state"] in ("PENDING", "RUNNING"):
                self.jobs[i]["state"] = "CANCELLED"
            return 0
        raise RuntimeError("unexpected HPC command: " + cmd)


def parse_submission_script(path):
    """-> (directives dict, run script path) from the text JADE wrote"""
    text = open(path).read()
    ds = {}
    for line in text.split("\n"):
        if line.startswith("#SBATCH --") and "=" in line:
            k, v = line[len("#SBATCH --"):].split("=", 1)
            ds[k] = v
    m = re.search(r"^srun (\S+)$", text, re.M)
    return ds, (m.group(1) if m else None), text


def parse_run_script(path):
    """-> dict(config_file, output, distributed, nproc, verbose) parsed from the run script text"""
    text = open(path).read()
    line = [l for l in text.strip().split("\n") if l.startswith("jade-internal run-jobs")]
    if len(line) != 1:
        return {"error": text}
    parts = line[0].split()
    res = {"config_file": parts[2], "output": None, "distributed": None, "nproc": None, "verbose": False, "text": text}
    for p in parts[3:]:
        if p.startswith("--output="):
            res["output"] = p.split("=", 1)[1]
        elif p == "--distributed-submitter":
            res["distributed"] = True
        elif p == "--no-distributed-submitter":
            res["distributed"] = False
        elif p.startswith("--num-parallel-processes-per-node="):
            res["nproc"] = int(p.split("=", 1)[1])
        elif p == "--verbose":
            res["verbose"] = True
        else:
            res.setdefault("unknown", []).append(p)
    return res


class Workdir:
    def __init__(self, prefix="verif_"):
        self.path = tempfile.mkdtemp(prefix=prefix)

    def __enter__(self):
        return self.path

    def __exit__(self, *a):
        shutil.rmtree(self.path, ignore_errors=True)


def group_limit_seconds(g):
    """wall * nproc in seconds (what _BatchJobs computes for time-based batching)"""
    return (g.get("wall_min", 60) * 60 + g.get("wall_sec", 0)) * (g.get("nproc") or 1)
