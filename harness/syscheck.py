"""System-level phase shared by the checks of C01 C02 C03 C04 C05 C06 C09 C10 C11 C12 C14 C16:
run the REAL jade code in the virtual cluster under generated scenarios / schedules / faults, then
  (1) every impl trace must be accepted by the Coq acceptor System.step (tie),
  (2) the Coq monitors (the functions the system theorems are about) must hold on it,
  (3) independent Python oracles judge the impl trace and final results directly.
A failing oracle or monitor is a concrete failing input (scenario + schedule) -> VIOLATION;
a rejected trace without a failing oracle -> tie broken (no-failing-input-found)."""
import json
import re
import multiprocessing as mp
import os
import random

from harness import core, sysrun

MODES = ("plain", "cancel", "kill", "timeout", "sbatchfail", "squeuefail", "write", "hooks", "cyclic", "local", "racing_try", "appendtimeout", "suspend", "resubmit", "scanerror", "multigroup", "suspendcancel", "interrupt", "resubmit_nofault", "resubmit_hooks", "bigloss")
WRITE_SITES = ["write:job_status.json", "write:cluster_config.json", "write:config_version", "write:job_status_version",
               "write:batch_config", "write:marker_touch", "write:marker_remove", "append:processed_results.csv",
               "consolidate:processed_results.csv", "consolidate:processed_results.csv",
               "fwrite:processed_results.csv", "fwrite:processed_results.csv"]


def make_case(seed, mode):
    rng = random.Random(seed * 1000003 + hash(mode) % 9973)
    force = None
    hooks = None
    if mode in ("hooks", "resubmit_hooks"):
        hooks = {k: rng.random() < 0.7 for k in ("setup", "teardown", "node_setup", "node_teardown")}
        if rng.random() < 0.35:
            # a teardown / node hook that exits non-zero is logged, it does not stop the submission
            force = {"hooks_rc": {rng.choice(["teardown", "node_teardown"]): rng.choice([1, 3])}}
    sc = sysrun.gen_scenario(rng, hooks=hooks, cyclic=(mode == "cyclic"), force=force)
    at = rng.randint(5, 140)
    plan = {"strategy": rng.choice(sysrun.STRATEGIES + ["gap_hunter"])}
    if mode == "cancel":
        plan["actions"] = [{"at": at, "do": "cancel"}]
        if rng.random() < 0.4:
            plan["actions"].append({"at": at + rng.randint(5, 60), "do": "try"})
    elif mode == "kill":
        plan["actions"] = [{"at": at, "do": "kill", "who": rng.choice(["any", "node", "submitter", "holder", "holder"])}]
        plan["break_stale"] = rng.random() < 0.5
    elif mode == "interrupt":
        # Ctrl-C on a login-node submitter in the middle of a round: KeyboardInterrupt is no Exception, `finally` runs
        plan["actions"] = [{"when": {"k": rng.choice(["sbatch", "sbatch", "sbatch", "squeue", "collect", "marker_touch"]),
                                     "field": "k", "n": rng.randint(1, 3)}, "do": "interrupt"}]
        sc["max_nodes"] = rng.choice([2, 3, None])
        for g in sc["groups"]:
            g["size"] = rng.choice([1, 1, 2])       # several batches per round: the interrupt falls between two sbatch calls
        plan["break_stale"] = rng.random() < 0.5
    elif mode == "bigloss":
        # one batch with many jobs is lost early: more than ten jobs end up without a result and every one of them
        # must be listed as missing
        n = rng.randint(13, 18)
        g = dict(sc["groups"][0], size=n, time=False)
        g["try"] = True
        sc["groups"] = [g]
        sc["jobs"] = [{"name": f"j{i}", "deps": ([f"j{rng.randrange(i)}"] if i and rng.random() < 0.3 else []), "cancel": rng.random() < 0.3,
                       "est": 1, "group": g["name"], "rc": (2 if rng.random() < 0.1 else 0)} for i in range(n)]
        sc["max_nodes"] = 1
        plan["actions"] = [{"when": {"k": "batch_start", "field": "k", "n": 1}, "do": "timeout"}] if rng.random() < 0.5 \
            else [{"at": rng.randint(10, 45), "do": "timeout"}]
        plan["break_stale"] = True
    elif mode == "timeout":
        plan["actions"] = [{"at": at, "do": "timeout"}]
        if rng.random() < 0.3:
            plan["actions"].append({"at": at + rng.randint(3, 40), "do": "timeout"})
        plan["break_stale"] = rng.random() < 0.5
    elif mode == "sbatchfail":
        plan["sbatch_fail"] = sorted({rng.randint(1, 4) for _ in range(rng.choice([1, 1, 2]))})
    elif mode == "squeuefail":
        plan["actions"] = [{"at": at, "do": "squeuefail"}]
    elif mode == "racing_try":
        # the user (or show-status) runs try-submit-jobs while rounds and nodes are active
        plan["actions"] = [{"at": rng.randint(3, 150), "do": "try"} for _ in range(rng.choice([1, 2, 3]))]
        plan["strategy"] = rng.choice(sysrun.STRATEGIES + ["gap_hunter", "collect_gap", "collect_gap"])
    elif mode == "appendtimeout":
        # the lock of a node result file times out while a node records a job's result
        plan["actions"] = [{"when": {"k": "site", "field": "site", "startswith": "append:results_batch", "n": rng.randint(1, 3)},
                            "do": "locktimeout", "who": "event_actor"}]
    elif mode == "suspend":
        # the scheduler reports a batch in a state other than pending/running (SUSPENDED) for a while
        d2 = rng.randint(20, 90)
        plan["actions"] = [{"at": at, "do": "suspend"}, {"at": at + rng.randint(1, d2 - 5), "do": "try"}, {"at": at + d2, "do": "resume"}]
        sc["max_nodes"] = rng.choice([1, 1, 2])
    elif mode == "local":
        for g in sc["groups"]:
            g["local"] = True
            g["time"] = False
        plan["local"] = True
    elif mode == "write":
        plan["write_error"] = [rng.choice(WRITE_SITES), rng.randint(2, 7)]
        if plan["write_error"][0].startswith("consolidate:"):
            plan["write_error"][1] = rng.randint(1, 3)
        if plan["write_error"][0].startswith("fwrite:"):
            plan["write_error"][1] = rng.randint(2, 5)      # (the first open creates the file at submit-jobs)
        plan["break_stale"] = rng.random() < 0.5
    elif mode == "scanerror":
        # the size scan of a finished job's output directory fails (dangling link): the node stops; jobs waiting for
        # that job must not start, whatever else happens
        with_deps = [j["name"] for j in sc["jobs"] if any(j["name"] in k["deps"] for k in sc["jobs"])]
        victim = rng.choice(with_deps or [j["name"] for j in sc["jobs"]])
        if rng.random() < 0.5:
            plan["scan_error"] = victim
        else:
            plan["launch_error"] = victim      # Popen raises OSError: the executable is missing / not runnable
        for g in sc["groups"]:
            g["try"] = True                      # blockers and dependents in one batch as often as possible
            g["size"] = max(g["size"], 3)
    elif mode == "multigroup":
        # several submission groups with different parameters, blockers across groups, try-add-blocked off in some:
        # what a round does for one group must not leak into the next, and later rounds re-read the groups from disk
        while len(sc["groups"]) < 2:
            g = dict(sc["groups"][0]); g["name"] = f"g{len(sc['groups'])}"; sc["groups"].append(g)
        for i, g in enumerate(sc["groups"]):
            g["try"] = (i % 2 == 1) if rng.random() < 0.7 else g["try"]
            g["size"] = rng.choice([1, 2]) if i == 0 else g["size"]
        names = [g["name"] for g in sc["groups"]]
        for k, j in enumerate(sc["jobs"]):
            j["group"] = names[k % len(names)]
        sc["max_nodes"] = rng.choice([2, 3, None])
    elif mode == "suspendcancel":
        # a batch is suspended by the scheduler (a state jade does not map) when the user cancels: it is active and must
        # be asked to cancel like any other
        plan["actions"] = [{"at": at, "do": "suspend"}, {"at": at + rng.randint(1, 20), "do": "cancel"}]
        if rng.random() < 0.5:
            # somebody runs a submitter round while the batch is held, before the user cancels
            plan["actions"] = [{"at": at, "do": "suspend"}, {"at": at + rng.randint(1, 12), "do": "try"},
                               {"at": at + rng.randint(25, 50), "do": "cancel"}]
        if rng.random() < 0.5:
            plan["actions"].append({"at": at + rng.randint(25, 60), "do": "try"})
    elif mode in ("resubmit", "resubmit_nofault", "resubmit_hooks", "bigloss"):
        # the submission completes (sometimes after losing a batch), then `jade resubmit-jobs` reruns the failed /
        # canceled / missing jobs and their dependents, and the submission runs to completion a second time
        if rng.random() < 0.4 and mode == "resubmit":      # (resubmit_nofault: histories without faults, for C09)
            plan["actions"] = [{"at": at, "do": "timeout"}]
            plan["break_stale"] = True
        if not any(j.get("rc") for j in sc["jobs"]) and not plan.get("actions"):
            rng.choice(sc["jobs"])["rc"] = 2
        if rng.random() < 0.5:
            # a failing job with several dependents that also depend on each other, listed in reverse order: the closure
            # of the resubmission needs more than one pass and a dependent is seen before its second blocker
            names = [j["name"] for j in sc["jobs"]]
            root = sc["jobs"][-1]
            root["rc"], root["deps"] = 2, []
            for k, j in enumerate(sc["jobs"][:-1]):
                later = [x for x in names[k + 1:-1] if rng.random() < 0.5]
                j["deps"] = sorted(set([root["name"]] + later))
                j["cancel"] = rng.random() < 0.6
                j["rc"] = 0
        if rng.random() < 0.8:
            # commands that succeed first and fail when they are run again: a job rerun only because its blocker is
            # rerun can now fail, and its flagged dependents must then be canceled in the second phase as well
            for j in sc["jobs"]:
                if not j.get("rc") and j.get("deps") and rng.random() < 0.5:
                    j["rc2"] = rng.choice([1, 3])
                elif j.get("rc") and rng.random() < 0.7:
                    j["rc2"] = 0         # the usual reason to resubmit: the failure was transient
        plan["then_resubmit"] = {"failed": True, "missing": True} if rng.random() < 0.8 else {"failed": True, "missing": False}
    return sc, plan


DIRECTED = {
    # C02/C04: on one node a failing job cancels two queued flagged jobs in one pass while a third job is queued
    # behind them; the canceled jobs must never start and the job behind them must still run after its blocker
    "node_cancels_two_with_one_behind": (
        {"jobs": [{"name": "f", "deps": [], "group": "g", "est": 1, "rc": 1}, {"name": "g1", "deps": [], "group": "g", "est": 1, "rc": 0},
                  {"name": "j1", "deps": ["f"], "group": "g", "est": 1, "rc": 0, "cancel": True},
                  {"name": "j2", "deps": ["f", "g1"], "group": "g", "est": 1, "rc": 0, "cancel": True},
                  {"name": "k", "deps": ["g1"], "group": "g", "est": 1, "rc": 0}],
         "groups": [{"name": "g", "size": 5, "time": False, "try": True, "nproc": 2}], "max_nodes": 1, "hooks": {}, "node_cpus": 2},
        {"strategy": "slow_finish", "finish_order": ["f", "g1"]}),
    # C03/C05: the user runs try-submit-jobs while the last node finishes between the round's two
    # observations (result collection / scheduler status); the run must still end with every result
    "try_races_with_last_node": (
        {"jobs": [{"name": "a", "deps": [], "group": "g", "est": 1, "rc": 0}, {"name": "b", "deps": ["a"], "group": "g", "est": 1, "rc": 3}],
         "groups": [{"name": "g", "size": 2, "time": False, "try": True, "nproc": 1}], "max_nodes": 1, "hooks": {}, "node_cpus": 2},
        {"strategy": "submitter_first",
         "actions": [{"when": {"k": "launch", "field": "job", "startswith": "b"}, "do": "try", "then_strategy": "submitter_first"},
                     {"when": {"k": "collect", "node": False}, "do": "strategy", "value": "collect_gap"}]}),
    # C11/C01: a write fails between the first and the second sbatch of one round (quota exceeded while
    # writing config_batch_2.json); later rounds must not hand batch 1's jobs out again
    "write_fails_after_first_sbatch": (
        {"jobs": [{"name": n, "deps": [], "group": "g", "est": 1, "rc": 0} for n in ("a", "b", "c", "d")],
         "groups": [{"name": "g", "size": 1, "time": False, "try": True, "nproc": 1}], "max_nodes": 3, "hooks": {}, "node_cpus": 2},
        {"strategy": "submitter_first", "break_stale": True, "write_error": ["write:batch_config", 2]}),
    # C03/C08: two batches run side by side; the node that finishes first consolidates the other node's result file
    # while that node's second job ends: the row must not be lost (read and delete of a node file are one critical
    # section with the node's appends)
    "collector_reads_running_batch": (
        {"jobs": [{"name": n, "deps": [], "group": "g", "est": 1, "rc": 0} for n in ("a", "b", "c", "d")],
         "groups": [{"name": "g", "size": 2, "time": False, "try": True, "nproc": 1}], "max_nodes": 2, "hooks": {}, "node_cpus": 2},
        {"strategy": "slow_finish", "finish_order": ["a", "c", "b", "d"],
         "actions": [{"when": {"k": "site", "field": "site", "startswith": "read:results_batch_2"}, "do": "hold", "steps": 40}]}),
    # C11/C08: the append to processed_results.csv fails (quota exceeded) while a round consolidates a node file;
    # the rows must stay on disk (in the node file) and be picked up by a later round
    "collect_append_fails": (
        {"jobs": [{"name": n, "deps": [], "group": "g", "est": 1, "rc": 0} for n in ("a", "b", "c")],
         "groups": [{"name": "g", "size": 1, "time": False, "try": True, "nproc": 1}], "max_nodes": 1, "hooks": {}, "node_cpus": 2},
        {"strategy": "nodes_first", "break_stale": True, "write_error": ["consolidate:processed_results.csv", 1]}),
    # C12 known finding: a node dies inside the locked append of a result row; markers never broken
    "node_dies_holding_result_lock": (
        {"jobs": [{"name": "a", "deps": [], "group": "g", "est": 1, "rc": 0}, {"name": "b", "deps": [], "group": "g", "est": 1, "rc": 0}],
         "groups": [{"name": "g", "size": 2, "time": False, "try": True, "nproc": 1}], "max_nodes": 1, "hooks": {}, "node_cpus": 2},
        {"strategy": "nodes_first", "break_stale": False,
         "actions": [{"when": {"k": "acquire", "lock_startswith": "results_batch", "node": True, "n": 2}, "do": "kill", "who": "event_actor"}]}),
}


def _run_case(arg):
    seed, mode = arg
    from harness import vcluster  # noqa (installs the stand-ins in this worker)
    if mode in DIRECTED:
        import copy
        sc, plan = copy.deepcopy(DIRECTED[mode])
    else:
        sc, plan = make_case(seed, mode)
    try:
        r = sysrun.run_plan(sc, seed, plan)
        r["error"] = None
    except Exception as e:  # noqa
        import traceback
        r = {"trace": [], "final": None, "status": {}, "stuck": [], "excs": [], "recoveries": 0, "choices": [],
             "applied": [], "fired": [], "launches": [], "error": traceback.format_exc()[-800:]}
    return seed, mode, sc, plan, r


def run_cases(cases, procs=None):
    procs = procs or core.NCPU
    if len(cases) <= 2 or procs <= 1:
        return [_run_case(c) for c in cases]
    ctx = mp.get_context("fork")
    # no maxtasksperchild: replacing a worker means fork() from the pool's handler thread while other threads of
    # the parent may hold locks (logging, import) - the child can then deadlock and the whole check stalls
    with ctx.Pool(min(procs, len(cases))) as pool:
        return pool.map(_run_case, cases, chunksize=max(1, len(cases) // (procs * 4)))


# ---------------------------------------------------------------------------------------------
# final-state oracles on impl (Python)
# ---------------------------------------------------------------------------------------------
def fault_free(plan, r):
    acts = [a for a in plan.get("actions", []) if a["do"] not in ("try", "suspend", "resume", "strategy", "hold")]
    return not acts and not plan.get("sbatch_fail") and not plan.get("write_error") and not r["fired"] and plan.get("then_resubmit") is None


def acyclic(sc):
    return all(v is not None and v != "maybe" for v in sysrun.reference(sc).values())


def final_oracles(sc, plan, r):
    """-> list of (pid, signature, message)"""
    probs = []
    tr = r["trace"]
    by = {j["name"]: j for j in sc["jobs"]}
    ff = fault_free(plan, r)
    complete = bool(r["status"].get("complete")) or (bool(plan.get("local")) and r["final"] is not None)
    rows = {}
    for ev in tr:
        if ev["k"] == "append" and ev.get("ok") and ev.get("batch") is not None:
            rows[ev["job"]] = (ev["rc"], ev["status"])
        elif ev["k"] == "sub_cancel":
            rows.setdefault(ev["job"], (1, "canceled"))
    ref = sysrun.reference(sc)
    if ff and acyclic(sc):
        hooked = [k for k, v in (sc.get("hooks") or {}).items() if v]
        if r["excs"] or r["stuck"]:
            probs.append(("C05", "fault-free-run-crashed", f"exceptions {r['excs'][:2]} stuck {r['stuck']}"))
            if hooked:
                # C16: the hook commands run at their documented points and the submission goes on: a teardown that
                # exits non-zero is logged, it does not stop the completion
                probs.append(("C16", "run-with-hooks-crashed", f"hooks {hooked} (exit codes {sc.get('hooks_rc') or {}}): exceptions {r['excs'][:2]} stuck {r['stuck']}"))
        elif not complete:
            probs.append(("C05", "no-completion", f"fault-free run not complete after {r['recoveries']} recovery rounds"))
            if hooked:
                probs.append(("C16", "run-with-hooks-not-complete", f"hooks {hooked} (exit codes {sc.get('hooks_rc') or {}}): not complete after {r['recoveries']} recovery rounds"))
        else:
            res, missing, summary = r["final"]
            if missing:
                probs.append(("C03", "missing-in-fault-free-run", f"missing jobs {missing}"))
                probs.append(("C05", "completed-without-all-results", f"fault-free run was completed although jobs {missing} have no result"))
            if set(res) != set(by):
                probs.append(("C03", "results-not-one-per-job", f"results for {sorted(res)} jobs {sorted(by)}"))
            for n, v in ref.items():
                if n in res and (res[n][1], res[n][0] != 0, res[n][0] if res[n][1] == "finished" else None) != \
                        (v[1], v[0] != 0, v[0] if v[1] == "finished" else None):
                    pid = "C04" if "canceled" in (res[n][1], v[1]) else "C03"
                    probs.append((pid, "outcome-differs-from-reference", f"job {n}: got {res[n]} reference {v}"))
        if r["recoveries"] > len(by) + 1:
            probs.append(("C05", "too-many-recovery-rounds", f"{r['recoveries']} recovery rounds for {len(by)} jobs"))
    # progress of each documented recovery in fault-free runs
    if ff:
        idx = [i for i, ev in enumerate(tr) if ev["k"] == "quiescent"]
        for a, i in enumerate(idx):
            end = idx[a + 1] if a + 1 < len(idx) else len(tr)
            seg = tr[i:end]
            if not any(ev["k"] == "sbatch" and ev.get("ok") for ev in seg) and not any(ev["k"] == "mark_complete" and ev.get("ok") for ev in seg):
                if not any(ev["k"] == "exit" and ev.get("error") for ev in seg):
                    probs.append(("C05", "recovery-round-without-progress", "try-submit-jobs at a quiescent point neither submitted a batch nor completed"))
        # no starvation: a round leaves an unblocked job unsubmitted only at the max-nodes limit
        maxn = sc.get("max_nodes")
        for i, ev in enumerate(tr):
            if ev["k"] == "update_status" and ev.get("ok"):
                sn = ev["snapshot"]
                free = [j for j in sn["jobs"] if j[1] == "not_submitted" and not j[2]]
                if free and not sn.get("canceled") and (maxn is None or len(sn["ids"]) < maxn):
                    probs.append(("C05", "unblocked-job-left-unsubmitted", f"jobs {[j[0] for j in free]} unblocked but not submitted with {len(sn['ids'])} active batches (max {maxn})"))
    # accounting (C12 / C14): results summary = rows really written; the rest missing
    if complete and r["final"] is not None:
        res, missing, summary = r["final"]
        for n, v in res.items():
            if n not in rows:
                probs.append(("C12", "fabricated-result", f"result for {n} but no node or submitter ever wrote one"))
            elif (rows[n][0], rows[n][1]) != (v[0], v[1]):
                probs.append(("C12", "result-altered", f"result of {n} is {v}, written row was {rows[n]}"))
        for n in rows:
            if n not in res:
                probs.append(("C12", "result-dropped", f"row of {n} was written but is not in the final results"))
        # C04 on the final table, whatever happened in between (faults, resubmissions): a flagged job whose command ran
        # to the end has no blocker whose final outcome is a failure (a rerun blocker takes its dependents with it)
        for n, v in res.items():
            if by.get(n, {}).get("cancel") and v[1] == "finished":
                bad = [d for d in by[n].get("deps", []) if d in res and res[d][0] != 0]
                if bad:
                    probs.append(("C04", "flagged-job-finished-although-blocker-failed",
                                  f"final results: flagged job {n} is {v} while its blocker(s) {[(d, res[d]) for d in bad]} failed"))
        if sorted(missing) != sorted(set(by) - set(res)):
            probs.append(("C12", "missing-list-wrong", f"missing {sorted(missing)} but jobs without result are {sorted(set(by) - set(res))}"))
        if summary:
            tot = summary.get("num_successful", 0) + summary.get("num_failed", 0) + summary.get("num_canceled", 0) + summary.get("num_missing", 0)
            if tot != len(by):
                probs.append(("C20", "tally-does-not-add-up", f"summary {summary} for {len(by)} jobs"))
    # C12: with only batch-level faults the documented recovery reaches completion
    # (a node killed while it acts as submitter - role held or cluster lock held - falls under C11)
    only_batch_faults = not plan.get("write_error") and all(a["do"] in ("timeout",) or (a["do"] == "kill" and a.get("who") in ("node", "event_actor"))
                                                            for a in plan.get("actions", []))
    holder, held = None, {}
    submitter_killed, result_lock_dead = False, None
    for ev in tr:
        k = ev["k"]
        if k == "create" or (k == "load" and ev.get("promoted")):
            holder = ev["p"]
        elif k == "demote" and ev.get("ok"):
            holder = None
        elif k == "acquire":
            held[ev["p"]] = ev["lock"]
        elif k == "release":
            held.pop(ev["p"], None)
        elif k == "kill":
            for q in ev["pids"]:
                if q == holder or held.get(q, "").startswith("cluster_config"):
                    submitter_killed = True
                elif q in held:
                    result_lock_dead = held[q]
    if only_batch_faults and (plan.get("actions") or plan.get("sbatch_fail")) and not complete and not submitter_killed:
        if result_lock_dead and not plan.get("break_stale"):
            probs.append(("C12", "node-died-holding-result-lock", f"a node died while holding {result_lock_dead}; with lock markers never broken the collection of results is wedged and the submission cannot complete"))
        else:
            probs.append(("C12", "no-completion-after-batch-failure", f"submission not complete after batch failures; excs {r['excs'][:2]}"))
    # C11: a failed status query is transient - the submission still completes afterwards
    acts_all = plan.get("actions", [])
    if acts_all and all(a["do"] == "squeuefail" for a in acts_all) and not plan.get("sbatch_fail") and not plan.get("write_error") \
            and acyclic(sc) and not complete:
        probs.append(("C11", "squeue-failure-not-transient", f"after one failed squeue the submission never completes; excs {r['excs'][:2]}"))
    # C14: a cancel-jobs that ran on an incomplete submission leaves it marked canceled
    for i, ev in enumerate(tr):
        if ev["k"] == "spawn" and ev.get("kind") == "cancel":
            pidc = ev["p"]
            loaded = [e for e in tr[i:] if e["p"] == pidc and e["k"] == "load" and e.get("promoted")]
            exited = [e for e in tr[i:] if e["p"] == pidc and e["k"] == "exit"]
            if loaded and not loaded[-1]["complete"] and exited and exited[0].get("code") == 0 \
                    and not any(e["k"] == "mark_canceled" for e in tr[i:]):
                probs.append(("C14", "cancel-did-not-mark", "cancel-jobs was promoted on an incomplete submission and exited normally but the submission is not marked canceled"))
    # C14: every active batch asked to be canceled; nothing submitted afterwards is in py_monitors
    for i, ev in enumerate(tr):
        if ev["k"] == "mark_canceled":
            asked = {e["id"] for e in tr[:i] if e["k"] == "scancel"}
            snap_ids = None
            for e in reversed(tr[:i]):
                if e["k"] in ("update_status", "observe") and isinstance(e.get("snapshot"), dict) and "ids" in e["snapshot"]:
                    snap_ids = e["snapshot"]["ids"]
                    break
            still = [x for x in ev.get("active", []) if x in (snap_ids or []) and x not in asked]
            if still:
                probs.append(("C14", "active-batch-not-canceled", f"batches {still} active and persisted but never scancel'ed"))
            # a batch that the status listed once, that is still active and that a round has dropped from the list in
            # the meantime (the scheduler never stopped reporting it) is not asked to cancel either
            ever = set()
            for e in tr[:i]:
                if e["k"] in ("update_status", "observe") and isinstance(e.get("snapshot"), dict):
                    ever.update(e["snapshot"].get("ids") or [])
            dropped = [x for x in ev.get("active", []) if x in ever and x not in (snap_ids or []) and x not in asked]
            if dropped and not any(e["k"] in ("kill", "write_error") for e in tr[:i]):
                probs.append(("C14", "active-batch-dropped-from-status-not-canceled",
                              f"batches {dropped} were listed in the status, are still active at the cancel, were dropped from the list by a round and are never scancel'ed"))
    # C14 / C05: after cancel-jobs the documented try-submit-jobs still completes the submission (nothing is active any
    # more): results collected, the rest reported missing
    if any(e["k"] == "mark_canceled" and e.get("ok") for e in tr) and not r["stuck"] and not complete \
            and r["recoveries"] >= 2 and not any(e["k"] == "kill" for e in tr) and not plan.get("write_error") \
            and not any(e["k"] == "phase2" for e in tr):
        for p_ in ("C14", "C05"):
            probs.append((p_, "canceled-submission-never-completes", f"the submission was canceled but is still not complete after {r['recoveries']} try-submit-jobs rounds; excs {r['excs'][:2]}"))
    # C01: in a complete fault-free run every job was handed to the HPC in exactly one batch, or canceled by a submitter
    if ff and acyclic(sc) and complete and not plan.get("local"):
        handed = {}
        for e in tr:
            if e["k"] == "sbatch" and e.get("ok"):
                for n, _ in e["jobs"]:
                    handed[n] = handed.get(n, 0) + 1
        subc = {e["job"] for e in tr if e["k"] == "sub_cancel"}
        never = sorted(n for n in by if handed.get(n, 0) == 0 and n not in subc)
        if never:
            probs.append(("C01", "job-never-placed", f"jobs {never} were in no batch and were not canceled although the fault-free run completed"))
    # C11 / C12 / C14 / C08: every result a node or a submitter recorded is still on disk at the end (consolidated file or
    # a node file), whatever failed in between; a resubmission legitimately removes the rows of the jobs it reruns
    if "disk_rows" in r and not any(e["k"] == "phase2" for e in tr):
        recorded = [e["job"] for e in tr if (e["k"] == "append" and e.get("ok") and e.get("batch") is not None) or e["k"] == "sub_cancel"]
        lost = sorted(set(n for n in recorded if n not in r["disk_rows"]))
        if lost:
            for p_ in ("C11", "C12", "C14", "C08", "C03"):
                probs.append((p_, "recorded-result-lost", f"results of {lost} were recorded but are in no result file at the end"))
    # C11 "later invocations continue consistently": when the submission completes, a job whose result is in the
    # consolidated file is not still "submitted" in the job table (its completion reached the status)
    if r["status"].get("complete") and r.get("final") and not any(e["k"] == "phase2" for e in tr):
        sn = r["status"]
        still = sorted(j[0] for j in sn.get("jobs", []) if j[1] == "submitted" and j[0] in r["final"][0])
        if still:
            # known finding when the cause is an error raised in a round between result consolidation and the
            # job-status update; any other cause keeps the generic signature and is reported
            werr = [f for f in r.get("fired", []) if f and f[0] == "write_error"]
            sig = "completion-lost-by-error-between-consolidation-and-status-update" if werr else "completion-never-reached-status"
            probs.append(("C11", sig, f"jobs {still} have a result in the final results but are still 'submitted' in the job table; jobs waiting for them were never submitted: missing={r['final'][1]} (injected: {werr})"))
    # C09: every observation at a lock-free instant is consistent and monotone
    prev = None
    resub = False
    for ev in tr:
        if ev["k"] == "phase2":
            resub = True          # resubmit-jobs rewrites the table (under the lock): monotonicity restarts after it
        if ev["k"] == "prepare_resubmit":
            prev = None
            resub = False
        if ev["k"] != "observe" or "error" in ev["snapshot"]:
            continue
        if resub:
            prev = None
        sn = ev["snapshot"]
        sts = [j[1] for j in sn["jobs"]]
        nd, ns = sts.count("done"), sts.count("submitted")
        if not (0 <= sn["completed"] <= sn["submitted"] <= sn["num"]) or sn["completed"] != nd or sn["submitted"] != nd + ns:
            probs.append(("C09", "status-counters", f"completed={sn['completed']} submitted={sn['submitted']} num={sn['num']} done={nd} submitted_state={ns}"))
        if any(j[2] for j in sn["jobs"] if j[1] != "not_submitted"):
            probs.append(("C09", "blocked-after-submit", "a submitted/done job has remaining blockers"))
        if "rows" in sn and not resub:
            norow = sorted(j[0] for j in sn["jobs"] if j[1] == "done" and j[0] not in sn["rows"])
            if norow:
                probs.append(("C09", "done-job-without-result", f"jobs {norow} are done in the job table but no result file holds a row for them"))
        if sn["cver"] != sn["cver_file"] or sn["jver"] != sn["jver_file"]:
            probs.append(("C09", "version-file-mismatch", f"{sn['cver']}/{sn['cver_file']} {sn['jver']}/{sn['jver_file']}"))
        if prev is not None:
            order = {"not_submitted": 0, "submitted": 1, "done": 2}
            if sn["completed"] < prev["completed"] or sn["submitted"] < prev["submitted"] or sn["cver"] < prev["cver"] or sn["jver"] < prev["jver"]:
                probs.append(("C09", "went-backwards", "counter or version decreased"))
            for a, b in zip(prev["jobs"], sn["jobs"]):
                if order[b[1]] < order[a[1]] or not set(b[2]) <= set(a[2]):
                    probs.append(("C09", "job-went-backwards", f"{a} -> {b}"))
            if prev["complete"] and not sn["complete"]:
                probs.append(("C09", "complete-reverted", "is_complete went back to false"))
        prev = sn
    return probs


PROP_OF_MONITOR = {"c01_ok": "C01", "c02_ok": "C02", "c05_ok": "C05", "c06_ok": "C06", "c10_ok": "C10", "c14_ok": "C14",
                   "c16_ok": "C16", "c06p_ok": "C06"}


def system_phase(chk, pid, modes, n_quick, n_thorough, also=(), directed=()):
    """modes: dict mode -> weight.  Violations are reported for property `pid` and those in `also`
    (e.g. C11 reports the C01/C02 monitors on its fault traces under its own id)."""
    n = n_thorough if chk.tier == "thorough" else n_quick
    names = list(modes)
    weights = [modes[m] for m in names]
    cases = [(0, d) for d in directed] + [(chk.seed * 100000 + i, chk.rng.choices(names, weights)[0]) for i in range(n)]
    # the corpus (minimized earlier failures) runs first
    results = run_cases(cases)
    # local mode (no scheduler, no batches) is outside the system model: only the Python oracles judge it
    def coq_part(plan, tr):
        # local mode and everything after a resubmission are outside the Coq system model
        if plan.get("local"):
            return []
        cut = next((i for i, e in enumerate(tr) if e["k"] == "phase2"), None)
        return tr if cut is None else tr[:cut]
    items = [(sc, coq_part(plan, r["trace"])) for _, _, sc, plan, r in results]
    try:
        acc = sysrun.accept_traces(items, name=f"sys_{pid}")
    except core.BuildError as e:
        chk.oblige("impl traces evaluated by the Coq acceptor", False, str(e))
        chk.tie_broken("System.step evaluation failed", e.log[-1200:])
        return
    dist = {"modes": {}, "jobs": {}, "rounds>=2": 0, "refused_promotion": 0, "sub_cancel": 0, "node_cancel": 0,
            "recoveries": {}, "complete": 0, "events": 0, "forced_completion": 0, "killed": 0, "hook_cases": 0}
    rejected = 0
    wanted = {pid} | set(also)
    for (seed, mode, sc, plan, r), a in zip(results, acc):
        tr = r["trace"]
        dist["modes"][mode] = dist["modes"].get(mode, 0) + 1
        dist["jobs"][len(sc["jobs"])] = dist["jobs"].get(len(sc["jobs"]), 0) + 1
        dist["events"] += a["n_events"]
        dist["rounds>=2"] += sum(1 for e in tr if e["k"] == "round_begin") >= 2
        dist["refused_promotion"] += any(e["k"] == "load" and e["try_promote"] and not e["promoted"] for e in tr)
        dist["sub_cancel"] += any(e["k"] == "sub_cancel" for e in tr)
        dist["node_cancel"] += any(e["k"] == "append" and e.get("status") == "canceled" and e.get("batch") is not None for e in tr)
        dist["recoveries"][r["recoveries"]] = dist["recoveries"].get(r["recoveries"], 0) + 1
        dist["complete"] += bool(r["status"].get("complete"))
        dist["killed"] += any(e["k"] == "kill" for e in tr)
        dist["hook_cases"] += any(e["k"] == "hook" for e in tr)
        nontrivial = sum(1 for e in tr if e["k"] == "sbatch") >= 2 or len(r["choices"]) > 20
        chk.count((seed, mode), nontrivial=nontrivial)
        replay = {"seed": seed, "mode": mode, "scenario": sc, "plan": plan, "schedule": r["choices"]}
        if r.get("error"):
            chk.tie_broken("virtual cluster harness crashed", r["error"])
            continue
        found = False
        for p, sig, msg, idx in sysrun.py_monitors(sc, tr):
            pp = pid if (p in also and p != pid) else p
            if p in wanted:
                found = True
                chk.violation(sig, f"[{p}] {msg}", dict(replay, failing_event_index=idx, failing_event=tr[idx] if idx < len(tr) else None,
                                                    oracle="python monitor on the impl trace"))
        for p, sig, msg in final_oracles(sc, plan, r):
            if p in wanted:
                found = True
                chk.violation(sig, f"[{p}] {msg}", dict(replay, oracle="python oracle on impl's final state", status=r["status"],
                                                    final=r["final"], excs=r["excs"]))
        for mname, ok in a["monitors"].items():
            if not ok and PROP_OF_MONITOR.get(mname) in wanted:
                found = True
                chk.violation("coq-monitor:" + mname, f"Coq monitor {mname} is false on an impl trace",
                              dict(replay, oracle="SystemMonitors." + mname))
        if not a["accepted"]:
            rejected += 1
            if not found:
                chk.tie_broken("impl trace rejected by System.step",
                               json.dumps({"seed": seed, "mode": mode, "event": a["reject_term"],
                                           "raw_event": tr[a["reject_index"]] if a["reject_index"] is not None else None,
                                           "scenario": sc, "plan": plan, "schedule": r["choices"]})[:3000])
    chk.oblige(f"all {len(items)} impl traces accepted by System.step (coqc vm_compute)", rejected == 0,
               f"{rejected} rejected")
    if pid in ("C03", "C05"):
        # hypothesis of the completeness theorems (SystemComplete.v): every impl run the harness injected no
        # fault into, on an acyclic configuration, must satisfy the executable predicate SystemFault.fault_free;
        # where it does, the theorem's conclusion is re-read from the trace (a disagreement = encoder error)
        n_ff = bad_ff = bad_concl = 0
        for (seed, mode, sc, plan, r), a in zip(results, acc):
            if plan.get("local") or r.get("error") or not a["accepted"]:
                continue
            if not (fault_free(plan, r) and acyclic(sc)):
                continue
            n_ff += 1
            tr = r["trace"]
            if not a.get("static_hypotheses"):
                bad_ff += 1
                chk.tie_broken("an acyclic scenario does not pass SystemFault.acyclicb && nodes_okb (static hypotheses of c03_complete_when_checked)",
                               json.dumps({"seed": seed, "mode": mode, "scenario": sc})[:2000])
            elif not a["fault_free"]:
                bad_ff += 1
                chk.tie_broken("a fault-free impl run does not satisfy SystemFault.fault_free (hypothesis of c03_complete_when_fault_free)",
                               json.dumps({"seed": seed, "mode": mode, "event": a["first_fault"],
                                           "raw_event": tr[a["first_fault_index"]] if a["first_fault_index"] is not None else None,
                                           "scenario": sc, "plan": plan, "schedule": r["choices"]})[:3000])
            elif any(e["k"] == "results_summary" and e.get("ok") and e["missing"] for e in tr):
                bad_concl += 1
                chk.tie_broken("an accepted fault-free trace has missing jobs in its summary: contradicts c03_complete_when_fault_free (encoder error)",
                               json.dumps({"seed": seed, "mode": mode, "scenario": sc, "plan": plan, "schedule": r["choices"]})[:3000])
        chk.oblige(f"all {n_ff} fault-free acyclic impl traces satisfy SystemFault.acyclicb, nodes_okb and fault_free - every hypothesis of c03_complete_when_checked, evaluated by coqc",
                   bad_ff == 0 and bad_concl == 0, f"{bad_ff} not fault-free in the model's sense, {bad_concl} contradict the conclusion")
        chk.notes.setdefault("input_distribution", {})["fault_free_traces"] = n_ff
    if pid == "C03":
        # the statement of C03 itself: the final results of a fault-free run ARE the reference evaluation
        # (SystemReference.reference, an executable Coq function of dependencies, flags and exit codes; theorem
        # c03_final_results_are_the_reference).  coqc evaluates it for every fault-free acyclic scenario and the results
        # impl wrote to results.json are compared with it.
        todo = [(seed, mode, sc, plan, r) for (seed, mode, sc, plan, r), a in zip(results, acc)
                if not plan.get("local") and not r.get("error") and a["accepted"] and fault_free(plan, r) and acyclic(sc)
                and r["status"].get("complete") and r.get("final")]
        if todo:
            body = [sysrun.IMPORTS.replace("SystemFault.", "SystemFault SystemComplete SystemOutcome SystemAcyclic SystemReference."),
                    "Import ListNotations.", "Open Scope N_scope.", "Set Printing Depth 1000000.", "Set Printing Width 1000000."]
            encs = [sysrun.Enc(sc) for _, _, sc, _, _ in todo]
            for n, e in enumerate(encs):
                body.append(f"Definition rsc{n} : scenario := {e.scenario()}.")
            body.append("Eval vm_compute in [" + "; ".join(
                f"map (fun rw => (rw_job rw, rw_rc rw, rw_cancel rw)) (reference rsc{n})" for n in range(len(encs))) + "].")
            try:
                out = core.coq_eval("c03_reference", "\n".join(body) + "\n", 600)
                vals = core.eval_results(out)
                lists = re.findall(r"\[([^\[\]]*)\]", vals[0].strip()[1:-1]) if vals else []
                ok_eval = len(lists) == len(todo)
            except core.BuildError as e:
                ok_eval, lists = False, []
                chk.tie_broken("SystemReference.reference could not be evaluated", e.log[-800:])
            bad_ref = 0
            if ok_eval:
                for (seed, mode, sc, plan, r), txt in zip(todo, lists):
                    want = {}
                    for m in re.finditer(r"\((\d+)(?:%N)?\s*,\s*\(?(-?\d+)\)?(?:%Z)?\s*,\s*(true|false)\)", txt):
                        want[sc["jobs"][int(m.group(1))]["name"]] = (int(m.group(2)), "canceled" if m.group(3) == "true" else "finished")
                    got = {n: (v[0], v[1]) for n, v in r["final"][0].items()}
                    if got != want or r["final"][1]:
                        bad_ref += 1
                        chk.violation("results-differ-from-coq-reference",
                                      f"[C03] results.json {got} (missing {r['final'][1]}) differs from SystemReference.reference {want}",
                                      {"seed": seed, "mode": mode, "scenario": sc, "plan": plan, "schedule": r["choices"],
                                       "oracle": "SystemReference.reference evaluated by coqc", "final": r["final"]})
            chk.oblige(f"results.json of all {len(todo)} complete fault-free acyclic runs equals SystemReference.reference (coqc vm_compute)",
                       ok_eval and bad_ref == 0, f"evaluated={ok_eval} differing={bad_ref}")
    chk.notes.setdefault("input_distribution", {})["system"] = dist
    sysrule = ("system cases = generated scenarios (2-8 jobs, random DAG incl. blocked-before-blocker listing, flags, exit codes, "
               "1-3 groups with count/time batching, try-add-blocked, nproc, max-nodes, hooks) run through the REAL jade code in the "
               "virtual cluster under a seeded schedule strategy and the mode's plan (plain / cancel / kill / timeout / sbatchfail / "
               "squeuefail / write error / hooks / cyclic / local); each impl trace is evaluated by System.step and the Coq monitors "
               "(coqc vm_compute) and by Python oracles; non-trivial = at least 2 sbatch calls or more than 20 scheduling choices; "
               "distinct by (seed, mode)")
    if "rule" not in chk.coverage and "rule" not in chk.notes:
        chk.notes["rule"] = sysrule
    else:
        chk.notes["system_rule"] = sysrule
    if not chk.assumptions:
        chk.assumptions += ["A-FS: exclusive create / rename / unlink / small appends on the shared filesystem are atomic",
                            "A-HPC: squeue answers are snapshots; sbatch returns a fresh id; the scheduler runs the script it was given",
                            "the virtual cluster's stand-ins (soft lock, sbatch/squeue/scancel, virtual job processes) behave like the real boundaries"]
    chk.notes["traces_validated_against_impl"] = chk.notes.get("traces_validated_against_impl", 0) + len(items)
    if results:
        sd, md, sc, plan, r = results[0]
        chk.sample({"seed": sd, "mode": md, "jobs": len(sc["jobs"]), "events": len(r["trace"]), "recoveries": r["recoveries"],
                    "complete": bool(r["status"].get("complete"))})
    return results


def replay_case(path):
    """./check Cxx --replay file: re-run scenario + schedule on impl and on the acceptor"""
    obj = json.load(open(path))
    if "scenario" not in obj:
        print(json.dumps(obj, indent=1)[:3000])
        return 0
    plan = dict(obj.get("plan") or {})
    plan["schedule"] = obj.get("schedule")
    r = sysrun.run_plan(obj["scenario"], obj.get("seed", 0), plan)
    a = sysrun.accept_traces([(obj["scenario"], r["trace"])])[0]
    print("accepted by System.step:", a["accepted"], "rejected event:", a["reject_term"])
    print("Coq monitors:", a["monitors"])
    for p in sysrun.py_monitors(obj["scenario"], r["trace"]):
        print("python monitor:", p)
    for p in final_oracles(obj["scenario"], plan, r):
        print("final oracle:", p)
    print("status:", json.dumps(r["status"])[:400])
    print("final:", r["final"])
    return 0
