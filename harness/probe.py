"""A tiny real program launched by the C19 check through JADE's real launch path.

usage: probe.py [--key=K] [--exit=N] [--signal=N] [--out-text=T] [--err-text=T] [anything ...]

It writes what it really received (argv, selected environment variables, cwd, pid) as JSON to
$C19_PROBE_FILE if set, else to $C19_PROBE_DIR/<K>.json (K from the first --key= argument; without
one: sha1 of $JADE_JOB_NAME - neither the job name nor the environment is trusted), prints one marker line to stdout and one to stderr, and exits with
the requested code (or kills itself with the requested signal).  Standard library only; never
imports jade.
"""
import hashlib
import json
import os
import sys

ENV_KEYS = ("JADE_RUNTIME_OUTPUT", "JADE_JOB_NAME", "SLURM_JOB_ID", "C19_PASSTHROUGH")


def main():
    argv = sys.argv[1:]
    code = 0
    sig = None
    out_text = None
    err_text = None
    key = None
    for a in argv:
        if a.startswith("--key=") and key is None:
            key = "".join(ch for ch in a[len("--key="):] if ch.isalnum())[:40] or None
        elif a.startswith("--exit="):
            try:
                code = int(a[len("--exit="):])
            except ValueError:
                code = 99
        elif a.startswith("--signal="):
            try:
                sig = int(a[len("--signal="):])
            except ValueError:
                sig = None
        elif a.startswith("--out-text="):
            out_text = a[len("--out-text="):]
        elif a.startswith("--err-text="):
            err_text = a[len("--err-text="):]
    name = os.environ.get("JADE_JOB_NAME")
    dump = {
        "argv": argv,
        "env": {k: os.environ.get(k) for k in ENV_KEYS},
        "cwd": os.getcwd(),
        "pid": os.getpid(),
        "exit": code,
    }
    path = os.environ.get("C19_PROBE_FILE")
    if not path:
        d = os.environ.get("C19_PROBE_DIR", ".")
        if key is None:
            key = hashlib.sha1(("" if name is None else name).encode("utf-8", "surrogateescape")).hexdigest()
        path = os.path.join(d, key + ".json")
    tmp = path + ".tmp%d" % os.getpid()
    with open(tmp, "w") as f:
        json.dump(dump, f)
    os.replace(tmp, path)
    sys.stdout.write("PROBE-OUT %s %s\n" % (json.dumps(name), json.dumps(out_text)))
    sys.stdout.flush()
    sys.stderr.write("PROBE-ERR %s %s\n" % (json.dumps(name), json.dumps(err_text)))
    sys.stderr.flush()
    if sig is not None:
        # the signal must really end the process: an inherited SIG_IGN (e.g. SIGHUP under nohup) or a blocked
        # signal would let the probe fall through to a normal exit and the check would blame JADE for the 0
        import signal as _signal
        try:
            _signal.signal(sig, _signal.SIG_DFL)
            _signal.pthread_sigmask(_signal.SIG_UNBLOCK, {sig})
        except (ValueError, OSError, AttributeError):
            pass
        os.kill(os.getpid(), sig)
    os._exit(code & 0xFF)


if __name__ == "__main__":
    main()
